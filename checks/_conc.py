"""Shared driver: several storage operations really interleaving on the dict backend.

The mailbox read-write locks are replaced by a stub with the real exclusion
semantics (many readers or one writer) whose acquisition may additionally be
*delayed* (a Boolean drawn from the engine: contention with a third party such
as a reader).  The operations are the real MailboxData coroutines, driven one
suspension at a time; which runnable task runs next is drawn from the engine.
A task waiting for a lock is runnable only when the lock can be taken.

No pymap / pysymex imports at module level (replay runs uninstrumented).
"""
from __future__ import annotations


class _Yield:
    def __init__(self, what):
        self.what = what

    def __await__(self):
        yield self.what


class XRW:
    def __init__(self, sched, name):
        self.sched = sched
        self.name = name
        self.readers = 0
        self.writer = False

    def free_for(self, mode):
        return not self.writer and (mode == 'r' or self.readers == 0)

    def read_lock(self):
        return _XAcq(self, 'r')

    def write_lock(self):
        return _XAcq(self, 'w')


class _XAcq:
    def __init__(self, lock, mode):
        self.lock = lock
        self.mode = mode

    async def __aenter__(self):
        lk = self.lock
        if lk.sched.may_delay():
            await _Yield(('delay',))
        while not lk.free_for(self.mode):
            await _Yield(('wait', lk, self.mode))
        if self.mode == 'r':
            lk.readers += 1
        else:
            lk.writer = True
        return None

    async def __aexit__(self, *a):
        lk = self.lock
        if self.mode == 'r':
            lk.readers -= 1
        else:
            lk.writer = False
        return False


class Sched:
    """pick(kind, n) -> int in 0..n-1 drawn by the caller (engine or replay list)"""

    def __init__(self, pick, max_delays=3):
        self.pick = pick
        self.max_delays = max_delays
        self.ndelays = 0
        self.active = False

    def may_delay(self):
        if not self.active or self.ndelays >= self.max_delays:
            return False
        v = bool(self.pick('delay', 2))
        if v:
            self.ndelays += 1
        return v


def run_tasks(coros, sched, max_steps=200):
    """returns (results, error): results[i] = ('done', value) | ('raised', exc)"""
    n = len(coros)
    alive = list(range(n))
    waiting = [None] * n
    results = [None] * n
    sched.active = True
    try:
        for _ in range(max_steps):
            if not alive:
                return results, None
            runnable = [i for i in alive if waiting[i] is None or waiting[i][0].free_for(waiting[i][1])]
            if not runnable:
                return results, 'deadlock: every live task waits for a lock'
            i = runnable[sched.pick('run', len(runnable))] if len(runnable) > 1 else runnable[0]
            try:
                y = coros[i].send(None)
            except StopIteration as e:
                results[i] = ('done', e.value)
                alive.remove(i)
                continue
            except Exception as exc:       # noqa: BLE001 - engine control flow is BaseException
                results[i] = ('raised', exc)
                alive.remove(i)
                continue
            if isinstance(y, tuple) and y and y[0] == 'wait':
                waiting[i] = (y[1], y[2])
            elif isinstance(y, tuple) and y and y[0] == 'delay':
                waiting[i] = None
            else:
                raise RuntimeError('unexpected suspension %r' % (y,))
        return results, 'tasks did not finish in %d steps' % max_steps
    finally:
        sched.active = False


ADD_OPS = ['append', 'copy0', 'copy1', 'move0', 'move1']


def adders_scenario(g, sim, base_s, base_d, ops, pick, check, max_delays=3):
    """ops: one of ADD_OPS per task, all adding to mailbox D (sources in INBOX).
    returns {'uid': [...], 'conservation': [...]}: definite errors; symbolic obligations go to check()"""
    ms = g['MailboxSet']()
    S = ms._inbox
    sim.run_coro(ms.add_mailbox('D'))
    D = sim.run_coro(ms.get_mailbox('D'))
    if base_s is not None:
        S._max_uid = base_s
        D._max_uid = base_d
    Flag, AM = g['Flag'], g['AppendMessage']
    src_marks = [Flag(b'k0'), Flag(b'k1')]
    old_mark = Flag(b'old')
    new_marks = [Flag(b'n%d' % i) for i in range(len(ops))]
    src_uids = [sim.run_coro(S.append(AM(b'src%d' % j, None, frozenset({src_marks[j]})))).uid for j in (0, 1)]
    old_uid = sim.run_coro(D.append(AM(b'old', None, frozenset({old_mark})))).uid
    sched = Sched(pick, max_delays)
    S._messages_lock = XRW(sched, 'S')
    D._messages_lock = XRW(sched, 'D')

    async def do(i, op):
        if op == 'append':
            return (await D.append(AM(b'new%d' % i, None, frozenset({new_marks[i]})))).uid
        j = int(op[-1])
        if op.startswith('copy'):
            return await S.copy(src_uids[j], D)
        return await S.move(src_uids[j], D)
    results, err = run_tasks([do(i, op) for i, op in enumerate(ops)], sched)
    errs = {'uid': [], 'conservation': []}
    if err:
        errs['uid'].append(err)
        errs['conservation'].append(err)
        return errs
    for i, r in enumerate(results):
        if r[0] != 'done':
            errs['uid'].append('%s raised %r' % (ops[i], r[1]))
            errs['conservation'].append('%s raised %r' % (ops[i], r[1]))
            return errs
    got = [r[1] for r in results]

    def marks_of(mbx):
        out = []
        for uid, msg in mbx._messages.items():
            out.append((uid, [m for m in src_marks + [old_mark] + new_marks if m in msg.permanent_flags]))
        return out
    in_s, in_d = marks_of(S), marks_of(D)
    # ---- C04: UIDs
    added = [(i, u) for i, u in enumerate(got) if u is not None]
    for x, (i, u) in enumerate(added):
        check(u > old_uid, 'a new UID is not greater than one assigned earlier')
        for (i2, u2) in added[x + 1:]:
            check(u != u2, 'two additions were given the same UID')
        want = new_marks[i] if ops[i] == 'append' else src_marks[int(ops[i][-1])]
        hit = [mk for (uid, mk) in in_d if bool(uid == u)]
        if len(hit) != 1:
            errs['uid'].append('the UID reported for %s of task %d is stored %d times in the destination' % (ops[i], i, len(hit)))
        elif want not in hit[0]:
            errs['uid'].append('the UID reported for %s of task %d denotes a different message' % (ops[i], i))
    d_uids = [uid for uid, _ in in_d]
    for a, b in zip(d_uids, d_uids[1:]):
        check(a < b, 'stored UIDs are not increasing in assignment order')
    for uid in d_uids:
        check(D._max_uid >= uid, 'UIDNEXT would not be greater than an existing UID')
    # ---- C14: conservation
    if len(in_d) != 1 + len(added):
        errs['conservation'].append('%d additions completed but the destination holds %d new messages'
                                    % (len(added), len(in_d) - 1))
    for j in (0, 1):
        ns = sum(1 for _, mk in in_s if src_marks[j] in mk)
        nd = sum(1 for _, mk in in_d if src_marks[j] in mk)
        moved = [i for i, u in added if ops[i] == 'move%d' % j]
        copied = [i for i, u in added if ops[i] == 'copy%d' % j]
        if ns + nd == 0:
            errs['conservation'].append('source message %d is in neither mailbox' % j)
        if len(moved) > 1:
            errs['conservation'].append('message %d was moved twice' % j)
        if moved and ns != 0:
            errs['conservation'].append('completed move left message %d in the source' % j)
        if not moved and ns != 1:
            errs['conservation'].append('message %d left the source without a move' % j)
        if nd != len(moved) + len(copied):
            errs['conservation'].append('message %d: %d completed copies/moves but %d instances in the destination'
                                        % (j, len(moved) + len(copied), nd))
    for i, op in enumerate(ops):
        if op == 'append':
            nd = sum(1 for _, mk in in_d if new_marks[i] in mk)
            if nd != 1:
                errs['conservation'].append('appended message of task %d is stored %d times' % (i, nd))
    return errs


def adders_harness(g_ref, ntasks, which, max_delays):
    """which: 'uid' (C04) or 'conservation' (C14)"""
    def fn(eng):
        from pysymex import SymUid, B, AND, Outcome
        g = g_ref
        ops = [ADD_OPS[eng.choose('op%d' % i, len(ADD_OPS))] for i in range(ntasks)]
        # symmetric schedules: tasks are interchangeable, keep ops sorted
        if any(ADD_OPS.index(a) > ADD_OPS.index(b) for a, b in zip(ops, ops[1:])):
            return Outcome(True, witness=lambda m: {'skip': True}, site='symmetric')
        base_s = eng.fresh_int('base_s', 0, 2 ** 32 - 20, cls=SymUid)
        base_d = eng.fresh_int('base_d', 0, 2 ** 32 - 20, cls=SymUid)
        picks = []

        def pick(kind, n):
            v = eng.choose('%s%d' % (kind, len(picks)), n)
            picks.append(v)
            return v
        obligations = []
        wit = lambda m: {'ops': ops, 'base_s': base_s.eval(m), 'base_d': base_d.eval(m), 'picks': picks,  # noqa: E731
                         'max_delays': max_delays, 'which': which}
        errs = adders_scenario(g, g['_sim'], base_s, base_d, ops, pick,
                               lambda c, msg='': obligations.append(B(c)), max_delays)
        if errs[which]:
            return Outcome(False, witness=wit, info=errs[which][0])
        if which == 'uid':
            return Outcome(AND(*obligations), witness=wit)
        return Outcome(True, witness=wit)
    return fn


def adders_replay(g, sim, w):
    if w.get('skip'):
        return []
    picks = list(w['picks'])
    bad = []

    def pick(kind, n):
        return picks.pop(0) if picks else 0

    def check(c, msg=''):
        if not c:
            bad.append(msg or 'obligation failed')
    errs = adders_scenario(g, sim, w['base_s'], w['base_d'], w['ops'], pick, check, w.get('max_delays', 3))
    if w['which'] == 'uid':
        return errs['uid'] + bad
    return errs['conservation']

"""Scripted connection driver for the real IMAPConnection / ManageSieve
connection loops (shared by C05, C09, C19).  Pure-Python reader/writer, so
lines may be SymBytes under the engine; a fresh asyncio loop per run."""
from __future__ import annotations

import asyncio
import socket


class _Sock:
    family = socket.AF_INET

    def fileno(self):
        return 7


class Transport:
    """reader + writer.  `feed` is a list of entries; each entry is bytes-like
    (sent when the server next reads) or a callable(output_so_far) -> bytes-like
    | None (None = skip this entry)."""

    def __init__(self, feed, local=False):
        self.feed = list(feed)
        self.out = []          # chunks written (bytes or SymBytes)
        self.buf = None
        self.closed = False
        self.tls = False
        self.local = local
        self.reads = 0

    # --- transport info
    def get_extra_info(self, name, default=None):
        if name == 'socket':
            return _Sock()
        if name == 'peername':
            return ('127.0.0.1', 1234) if self.local else ('1.2.3.4', 1234)
        if name == 'sockname':
            return ('127.0.0.1', 143) if self.local else ('5.6.7.8', 143)
        return default

    # --- writer
    def write(self, data):
        self.out.append(data)

    async def drain(self):
        return None

    def close(self):
        self.closed = True

    async def start_tls(self, ctx, **kw):
        self.tls = True

    def output(self):
        items = []
        for c in self.out:
            items.extend(list(bytes(c)) if isinstance(c, (bytes, bytearray, memoryview)) else c.items)
        return items

    # --- reader
    def _next(self):
        while self.feed:
            e = self.feed.pop(0)
            if callable(e):
                e = e(self)
                if e is None:
                    continue
            return e
        return None

    async def _anext(self):
        """like _next, but a feed entry may be an async callable (it may yield to the loop before answering)"""
        import inspect
        while self.feed:
            e = self.feed.pop(0)
            if callable(e):
                e = e(self)
                if inspect.isawaitable(e):
                    e = await e
                if e is None:
                    continue
            return e
        return None

    async def readline(self):
        self.reads += 1
        if self.reads > 200:
            raise RuntimeError('driver: too many reads')
        if self.buf is None or len(self.buf) == 0:
            self.buf = await self._anext()
            if self.buf is None:
                return b''
        data = self.buf
        # one line: up to and including the first LF
        n = len(data)
        cut = n
        for i in range(n):
            if data[i] == 10:
                cut = i + 1
                break
        line, self.buf = data[:cut], data[cut:]
        return line

    async def readexactly(self, k):
        if self.buf is None or len(self.buf) == 0:
            self.buf = await self._anext()
            if self.buf is None:
                raise asyncio.IncompleteReadError(b'', k)
        if len(self.buf) < k:
            raise asyncio.IncompleteReadError(bytes(self.buf) if isinstance(self.buf, bytes) else b'', k)
        part, self.buf = self.buf[:k], self.buf[k:]
        return part

    def at_eof(self):
        return not self.feed and not self.buf


def run_imap(g, login, config, feed, local=False):
    """returns (transport, state, exception|None)"""
    from contextlib import AsyncExitStack, closing
    from proxyprotocol.sock import SocketInfoLocal
    tr = Transport(feed, local)
    holder = {}

    async def main():
        conn = g['IMAPConnection'](config.commands, config, tr, tr, SocketInfoLocal(tr))
        state = g['ConnectionState'](login, config)
        holder['state'] = state
        async with AsyncExitStack() as stack:
            g['connection_exit'].set(stack)
            stack.enter_context(closing(conn))
            await conn.run(state)
    exc = None
    try:
        asyncio.run(main())
    except Exception as e:   # noqa: BLE001
        exc = e
        import os, traceback
        if os.environ.get('VERIF_DEBUG'):
            traceback.print_exc()
    return tr, holder.get('state'), exc


def tagged(items):
    """split concrete output bytes into lines; returns (lines, {tag: condition})"""
    data = bytes(items)
    lines = data.split(b'\r\n')
    conds = {}
    for ln in lines:
        parts = ln.split(b' ', 2)
        if len(parts) >= 2 and parts[0] not in (b'*', b'+') and parts[1] in (b'OK', b'NO', b'BAD'):
            conds[parts[0]] = parts[1].decode()
    return lines, conds

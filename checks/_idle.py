"""Shared scenario: a client idling on the real connection loop while another session changes the mailbox.

Session A is a real IMAPConnection.run() on a scripted transport (LOGIN,
SELECT, UID FETCH 1:* (UID), [NOOP], IDLE ... DONE).  Session B is a
ConnectionState on the same dict-backend mailbox set, run synchronously from
the transport's feed callbacks: a burst *before* IDLE (after A's last command,
so the changes are pending when IDLE starts) and one or two bursts *while* A
idles (the callback yields to the loop between bursts so that the real
handle_updates / receive_updates / write_updates stream them).  A shadow client
is built from nothing but the bytes A's transport received, in order: every
EXPUNGE must be in range, EXISTS never shrinks, FETCH never relabels a UID, and
after the tagged IDLE response the client's count and seq->UID map equal the
server's view of session A.  Optionally (C16): everything B did while A idled
has reached the client before DONE was sent.

No pymap / pysymex imports at module level.
"""
from __future__ import annotations

import re

B_OPS = ['append', 'delete', 'flag', 'unflag']


def _b_do(g, w, op, pick):
    """one operation of session B (session 0 of the world); pick(n) -> sequence number in 1..n (symbolic under the engine)"""
    view = w.server_view(0) or []
    if op == 'append' or not view:
        w.append(0)
        return
    seq = pick(len(view))
    if op == 'delete':
        w.store(0, [seq], [g['Deleted']], 'ADD', silent=True)
        w.expunge(0)
    elif op == 'flag':
        w.store(0, [seq], [g['Flagged']], 'ADD', silent=True)
    elif op == 'unflag':
        w.store(0, [seq], [g['Flagged']], 'DELETE', silent=True)


class Shadow:
    """client model driven by raw response lines"""

    def __init__(self):
        self.entries = []
        self.errors = []
        self.flags = {}

    def feed(self, line):
        m = re.match(rb'^\* (\d+) (EXISTS|EXPUNGE|RECENT|FETCH)\b(.*)$', line, re.S)
        if not m:
            return
        n, kind, rest = int(m.group(1)), m.group(2), m.group(3)
        if kind == b'EXISTS':
            if n < len(self.entries):
                self.errors.append('EXISTS %d shrinks from %d' % (n, len(self.entries)))
                return
            self.entries += [{'uid': None, 'flags': None} for _ in range(n - len(self.entries))]
        elif kind == b'EXPUNGE':
            if not (1 <= n <= len(self.entries)):
                self.errors.append('EXPUNGE %d outside 1..%d' % (n, len(self.entries)))
                return
            del self.entries[n - 1]
        elif kind == b'FETCH':
            if not (1 <= n <= len(self.entries)):
                self.errors.append('FETCH %d outside 1..%d' % (n, len(self.entries)))
                return
            ent = self.entries[n - 1]
            mu = re.search(rb'\bUID (\d+)', rest)
            if mu:
                uid = int(mu.group(1))
                if ent['uid'] is not None and ent['uid'] != uid:
                    self.errors.append('FETCH %d relabels UID %d as %d' % (n, ent['uid'], uid))
                ent['uid'] = uid
            mf = re.search(rb'FLAGS \(([^)]*)\)', rest)
            if mf:
                ent['flags'] = frozenset(mf.group(1).split())


def scenario(g, sim, conn_mod, m, pre, during, noop_first, end_done, want_delivery, pick, settle=True):
    """pre: list of ops B runs after A's last command and before IDLE; during: list of bursts (lists of ops);
    pick(n): the sequence number B addresses.  returns error|None"""
    import asyncio
    w = sim.World(g, 1)
    for _ in range(m):
        w.append(0)
    w.select(0)
    cfg = w.config
    login = g['Login'](cfg)
    login.users_dict['testuser'] = g['UserMetadata'](cfg, 'testuser', password=cfg.hash_context.hash('testpass'))
    cfg.set_cache['testuser'] = (w.mset, w.fset)
    marks = {}

    def pre_cb(tr):
        for op in pre:
            _b_do(g, w, op, pick)
        return None

    async def during_cb(tr):
        for bi, burst in enumerate(during):
            for op in burst:
                _b_do(g, w, op, pick)
            if settle or bi < len(during) - 1:
                for _ in range(12):
                    await asyncio.sleep(0)
            # else: the last burst and the client's DONE arrive in the same scheduling window
        marks['out_before_done'] = len(tr.output())
        marks['state_before_done'] = [(u, frozenset(f)) for u, f, _ in w.dump('INBOX')]
        return b'DONE\r\n' if end_done else b'x\r\n'
    feed = [b'l LOGIN testuser testpass\r\n', b's SELECT INBOX\r\n', b'u UID FETCH 1:* (UID FLAGS)\r\n']
    if noop_first:
        feed.append(b'n NOOP\r\n')
    feed += [pre_cb, b'i IDLE\r\n', during_cb]
    tr, state, exc = conn_mod.run_imap(g, login, cfg, feed, local=True)
    if exc is not None:
        return 'connection raised %r' % (exc,)
    out = bytes(tr.output())
    if b'+ Idling' not in out:
        return 'IDLE did not answer with a continuation'
    sh = Shadow()
    pos = 0
    before_done = None
    for line in out.split(b'\r\n'):
        if before_done is None and pos >= marks.get('out_before_done', 1 << 60):
            before_done = [(e['uid'], e['flags']) for e in sh.entries]
        pos += len(line) + 2
        sh.feed(line)
        if line.startswith(b'i '):
            want = b'i OK' if end_done else b'i BAD'
            if not line.startswith(want):
                return 'IDLE ended with %r' % line[:20]
    if sh.errors:
        return sh.errors[0]
    sel = state._selected
    view = list(sel.messages._sorted) if sel is not None else None
    if view is None:
        return 'session A lost its selection'
    if len(view) != len(sh.entries):
        return 'after IDLE the client holds %d messages, the server view of the session has %d' % (len(sh.entries), len(view))
    for i, (ent, uid) in enumerate(zip(sh.entries, view)):
        if ent['uid'] is not None and ent['uid'] != uid:
            return 'after IDLE sequence %d is UID %s for the client and %s for the server' % (i + 1, ent['uid'], uid)
    if want_delivery and settle and during and any(during):
        # C16: whatever happened while idling reached the client without DONE being needed
        st = marks['state_before_done']
        got = before_done if before_done is not None else [(e['uid'], e['flags']) for e in sh.entries]
        if len(got) != len(st):
            return 'before DONE the client had been told of %d messages, the mailbox had %d' % (len(got), len(st))
        for (cu, cf), (su, sf) in zip(got, st):
            if cu is not None and cu != su:
                return 'before DONE the client maps a sequence number to UID %s, the mailbox has %s' % (cu, su)
            if cf is not None and (b'\\Flagged' in cf) != (g['Flagged'] in sf):
                return 'before DONE the client had not been told of a flag change'
    return None


def harness(g_ref, m, npre, bursts, want_delivery=False):
    """npre: number of B operations pending at IDLE start; bursts: tuple of burst sizes while idling"""
    def fn(eng):
        from pysymex import Outcome
        from checks import _conn
        g = g_ref

        from pysymex import SymUid

        def draw(tag):
            return B_OPS[eng.choose('op_' + tag, len(B_OPS))]
        pre = [draw('p%d' % i) for i in range(npre)]
        during = [[draw('d%d_%d' % (b, i)) for i in range(n)] for b, n in enumerate(bursts)]
        noop_first = bool(eng.flip('noop_first'))
        end_done = bool(eng.flip('done'))
        settle = bool(eng.flip('settle'))
        seqs = []

        def pick(n):
            v = eng.fresh_int('seq%d' % len(seqs), 1, n, cls=SymUid)
            seqs.append(v)
            return v
        wit = lambda mdl: {'m': m, 'pre': pre, 'during': during, 'noop_first': noop_first, 'end_done': end_done,  # noqa: E731
                           'want_delivery': want_delivery, 'settle': settle, 'seqs': [v.eval(mdl) for v in seqs]}
        err = scenario(g, g['_sim'], _conn, m, pre, during, noop_first, end_done, want_delivery, pick, settle)
        return Outcome(err is None, witness=wit, info=err)
    return fn


def replay(w):
    from checks import _sim, _conn
    g = _sim.bindings()
    from pymap.imap import IMAPConnection
    from pymap.backend.dict import Login
    from pymap.user import UserMetadata
    from pymap.context import subsystem, connection_exit
    g.update(locals())
    seqs = list(w['seqs'])
    err = scenario(g, _sim, _conn, w['m'], list(w['pre']), [list(b) for b in w['during']],
                   w['noop_first'], w['end_done'], w.get('want_delivery', False), lambda n: seqs.pop(0) if seqs else 1,
                   w.get('settle', True))
    return [err] if err else []

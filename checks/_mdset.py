"""The real maildir MailboxSet (both layouts) on a directory-aware in-memory file system.

DirFS adds directories to the MemFS of c04_maildir (isdir / listdir / walk /
rmdir / rename of whole directories); the standard library Maildir class is
replaced by a factory that creates the folder's directories and hands out one
stub object store per folder (the stores move with their directory when it is
renamed).  UIDVALIDITY and the mailbox GUID, normally taken from the clock and
the random generator, come from a counter so that a path of the engine can be
executed again.

scenario(): two folders A and B exist, each with one message; a short history
of RENAME / DELETE / CREATE / APPEND over the names A, B, C runs through the
real MailboxSet of one live session; after every step every existing name is
opened with get_mailbox() and listed with messages():
 * the UIDVALIDITY the mailbox object reports is the one its dovecot-uidlist
   holds;
 * a (UIDVALIDITY, UID) pair never denotes two different messages over the
   whole history;
 * RENAME takes messages, UIDs and UIDVALIDITY along; the set of names is the
   set-of-names model's.

No pymap / pysymex imports at module level.
"""
from __future__ import annotations

NAMES = ['A', 'B', 'C']
OPS = [('rename', a, b) for a in NAMES for b in NAMES if a != b] + [('delete', a) for a in NAMES] + \
      [('create', a) for a in NAMES] + [('append', a) for a in NAMES]


def make_dirfs():
    from checks.c04_maildir import MemFS, StubMaildir
    from mailbox import NoSuchMailboxError

    class DirFS(MemFS):
        def __init__(self):
            super().__init__(lambda: 0)
            self.dirs = set()
            self.stores = {}

        def path_isdir(self, p):
            return p.rstrip('/') in self.dirs

        def path_exists(self, p):
            return p in self.files or p.rstrip('/') in self.dirs

        def path_isfile(self, p):
            return p in self.files

        def listdir(self, p):
            p = p.rstrip('/')
            if p not in self.dirs:
                raise FileNotFoundError(p)
            out = set()
            for q in list(self.dirs) + list(self.files):
                if q.startswith(p + '/'):
                    out.add(q[len(p) + 1:].split('/', 1)[0])
            return sorted(out)

        def walk(self, p, topdown=True):
            p = p.rstrip('/')
            subs = [d for d in self.listdir(p) if p + '/' + d in self.dirs]
            files = [f for f in self.listdir(p) if p + '/' + f in self.files]
            if topdown:
                yield p, subs, files
            for d in subs:
                yield from self.walk(p + '/' + d, topdown)
            if not topdown:
                yield p, subs, files

        def rmdir(self, p):
            p = p.rstrip('/')
            if p not in self.dirs:
                raise FileNotFoundError(p)
            if self.listdir(p):
                import errno
                raise OSError(errno.ENOTEMPTY, 'Directory not empty', p)
            self.dirs.discard(p)
            self.stores.pop(p, None)

        def rename(self, a, b):
            a, b = a.rstrip('/'), b.rstrip('/')
            if a in self.dirs:
                if b in self.dirs or b in self.files:
                    if b in self.dirs and self.listdir(b):
                        import errno
                        raise OSError(errno.ENOTEMPTY, 'Directory not empty', b)

                def mv(q):
                    return b + q[len(a):]
                self.dirs = {mv(q) if (q == a or q.startswith(a + '/')) else q for q in self.dirs}
                self.files = {(mv(q) if q.startswith(a + '/') else q): v for q, v in self.files.items()}
                self.stores = {(mv(q) if (q == a or q.startswith(a + '/')) else q): v for q, v in self.stores.items()}
                return
            return super().rename(a, b)

        def maildir(self, path, create=True):
            path = path.rstrip('/')
            if create:
                for d in ('', '/new', '/cur', '/tmp'):
                    self.dirs.add(path + d)
                # parents exist as plain directories
                parts = path.split('/')
                for i in range(2, len(parts)):
                    self.dirs.add('/'.join(parts[:i]))
                if path not in self.stores:
                    self.stores[path] = {'msgs': {}, 'payload': {}}
            elif path + '/cur' not in self.dirs:
                raise NoSuchMailboxError(path)
            self.stores.setdefault(path, {'msgs': {}, 'payload': {}})
            return KeyStore(path)

    class KeyStore(StubMaildir):
        """like mailbox.Maildir an object of this class is bound to a *path*: what it reads and writes is whatever
        folder is at that path now (the contents move when the directory is renamed)"""
        _seq = [0]

        def __init__(self, path, content=None):
            self.name = 'm'
            self._path = path
            self._fs = fs_ref[0]

        def _content(self):
            c = self._fs.stores.get(self._path)
            if not isinstance(c, dict):
                raise FileNotFoundError(self._path)
            return c

        @property
        def msgs(self):
            return self._content()['msgs']

        @property
        def payload(self):
            return self._content()['payload']

        @property
        def n(self):
            KeyStore._seq[0] += 1
            return KeyStore._seq[0]

        @n.setter
        def n(self, v):
            pass

        def keys(self):
            return list(self.msgs)

        def clean(self):
            pass

        def claim_new(self):
            return []
    fs_ref = [None]
    fs_ref[0] = DirFS()
    KeyStore._seq[0] = 0
    return fs_ref[0]


def scenario(g, install, layout_name, script, check):
    """script: list of OPS entries.  returns error|None"""
    from checks.c04_maildir import _Sleep
    import pymap.mailbox as PM
    import pymap.backend.maildir.uidlist as UL
    fs = make_dirfs()
    install(fs, lambda: 0, lambda d: _Sleep(d))
    counter = [0]

    def new_validity():
        counter[0] += 1
        return 1000 + counter[0]

    def new_guid():
        counter[0] += 1
        return b'%032x' % counter[0]
    saved = (PM.MailboxSnapshot.new_uid_validity, UL.UidList._create_guid)
    PM.MailboxSnapshot.new_uid_validity = staticmethod(new_validity)
    UL.UidList._create_guid = staticmethod(new_guid)
    try:
        from pymap.backend.maildir.layout import DefaultLayout, FilesystemLayout
        MSet, AM, UidList = g['MaildirMailboxSet'], g['AppendMessage'], g['UidList']
        cls = DefaultLayout if layout_name == '++' else FilesystemLayout
        root = '/m'
        inbox = fs.maildir(root, create=True)
        layout = cls(root, fs.maildir)
        mset = MSet(inbox, layout)
        dt = g['datetime']

        def run(co):
            for _ in range(200):
                try:
                    co.send(None)
                except StopIteration as e:
                    return e.value
            raise RuntimeError('operation did not finish')
        nmsg = [0]

        async def append(name):
            mbx = await mset.get_mailbox(name)
            nmsg[0] += 1
            msg = await mbx.append(AM(b'Subject: x\r\n\r\nmessage %d' % nmsg[0], dt.fromtimestamp(5000 + nmsg[0]), frozenset()))
            return msg.uid

        async def listing(name):
            mbx = await mset.get_mailbox(name)
            out = []
            async for msg in mbx.messages():
                out.append((msg.uid, int(msg.internal_date.timestamp())))
            return mbx, out
        # the pre-state: A and B, one message each
        model = {}          # name -> (validity, [(uid, date)])
        seen = {}           # (validity, uid) -> date of the message it denoted
        for name in ('A', 'B'):
            run(mset.add_mailbox(name))
            run(append(name))

        def observe(where):
            real_names = set()
            tree = run(mset.list_mailboxes())
            for e in tree.list():
                if e.exists and e.name != 'INBOX':
                    real_names.add(e.name)
            if real_names != set(model):
                return '%s: the store lists %r, the model holds %r' % (where, sorted(real_names), sorted(model))
            for name in sorted(model):
                mbx, lst = run(listing(name))
                path = layout.get_path(name, '/')
                on_disk = UidList.file_read(path).uid_validity
                if mbx.uid_validity != on_disk:
                    return '%s: %s reports UIDVALIDITY %s, its uidlist holds %s' % (where, name, mbx.uid_validity, on_disk)
                want_v, want = model[name]
                if want_v is None:
                    model[name] = (on_disk, lst)
                    want_v, want = on_disk, lst
                if on_disk != want_v:
                    return '%s: %s has UIDVALIDITY %s, the model says %s' % (where, name, on_disk, want_v)
                if sorted(lst) != sorted(want):
                    return '%s: %s lists %r, the model says %r' % (where, name, sorted(lst), sorted(want))
                for uid, date in lst:
                    key = (mbx.uid_validity, uid)
                    if key in seen and seen[key] != date:
                        return '%s: UIDVALIDITY %s UID %s denoted another message before' % (where, key[0], key[1])
                    seen[key] = date
            return None
        model = {'A': (None, None), 'B': (None, None)}
        for name in ('A', 'B'):          # learn the pre-state
            mbx, lst = run(listing(name))
            model[name] = (mbx.uid_validity, lst)
        err = observe('at the start')
        if err:
            return err
        for op in script:
            kind = op[0]
            try:
                if kind == 'rename':
                    run(mset.rename_mailbox(op[1], op[2]))
                    ok = True
                elif kind == 'delete':
                    run(mset.delete_mailbox(op[1]))
                    ok = True
                elif kind == 'create':
                    run(mset.add_mailbox(op[1]))
                    ok = True
                else:
                    if op[1] not in model:
                        continue
                    uid = run(append(op[1]))
                    v, lst = model[op[1]]
                    model[op[1]] = (v, lst + [(uid, 5000 + nmsg[0])])
                    ok = True
            except (KeyError, ValueError, g['ResponseError']):
                ok = False
            if kind == 'rename':
                want_ok = op[1] in model and op[2] not in model
                if want_ok:
                    model[op[2]] = model.pop(op[1])
            elif kind == 'delete':
                want_ok = op[1] in model
                if want_ok:
                    del model[op[1]]
            elif kind == 'create':
                want_ok = op[1] not in model
                if want_ok:
                    model[op[1]] = (None, [])
            else:
                want_ok = True
            if ok != want_ok:
                return '%s %s: %s, the model says %s' % (kind, op[1:], 'done' if ok else 'refused', 'done' if want_ok else 'refused')
            err = observe('after %s %s' % (kind, '/'.join(op[1:])))
            if err:
                return err
        return None
    finally:
        PM.MailboxSnapshot.new_uid_validity, UL.UidList._create_guid = saved
        install(None, None, None)


def harness(g_ref, layout_name, depth):
    def fn(eng):
        from pysymex import loader, Outcome
        from pysymex.core import SymInt
        SymInt.HASH_OK = True
        script = [OPS[eng.choose('op%d' % t, len(OPS))] for t in range(depth)]

        def install(fs, clock, sleep):
            loader.FS_HOOK[0] = fs
            loader.ENV_HOOK['clock'] = clock
            loader.ENV_HOOK['sleep'] = sleep
        err = scenario(g_ref, install, layout_name, script, None)
        return Outcome(err is None, witness=lambda m: {'layout': layout_name, 'script': [list(x) for x in script]}, info=err)
    return fn


def replay(w):
    import types
    import pymap.concurrent as C
    import pymap.backend.maildir.io as IO
    import pymap.backend.maildir.layout as LY
    from checks import c04_maildir
    g = c04_maildir.bindings()
    from pymap.backend.maildir.mailbox import MailboxSet as MaildirMailboxSet
    from pymap.exceptions import ResponseError
    g.update(MaildirMailboxSet=MaildirMailboxSet, ResponseError=ResponseError)
    saved = (C.os, C.time, C.asyncio, IO.os, IO.NamedTemporaryFile, LY.os)

    def install(fs, clock, sleep):
        if fs is None:
            C.os, C.time, C.asyncio, IO.os, IO.NamedTemporaryFile, LY.os = saved
            for mod in (C, IO, LY):
                mod.__dict__.pop('open', None)
            return
        import os as _os
        pathns = types.SimpleNamespace(**{k: getattr(_os.path, k) for k in ('join', 'split', 'basename', 'dirname')})
        pathns.exists = fs.path_exists
        pathns.isdir = fs.path_isdir
        pathns.isfile = fs.path_isfile
        o = types.SimpleNamespace(stat=fs.stat, unlink=fs.unlink, remove=fs.remove, rename=fs.rename, path=pathns,
                                  listdir=fs.listdir, walk=fs.walk, rmdir=fs.rmdir, sep='/')
        C.os = o
        IO.os = o
        LY.os = o
        C.time = types.SimpleNamespace(time=clock)
        a = types.SimpleNamespace(**{k: v for k, v in vars(saved[2]).items() if not k.startswith('__')})
        a.sleep = sleep
        C.asyncio = a
        for mod in (C, IO, LY):
            mod.open = fs.open
        IO.NamedTemporaryFile = fs.named_temp
    err = scenario(g, install, w['layout'], [tuple(x) for x in w['script']], None)
    return [err] if err else []

"""Replay witnesses against plain, uninstrumented pymap (no import hook).

usage: python -m checks._replay_main <ID> <in.json> <out.json>
"""
from __future__ import annotations

import importlib
import json
import sys
import traceback


def _one(mod, it):
    try:
        r = mod.replay(it['harness'], it['witness'])
        if isinstance(r, bool):
            r = {'violates': r}
        return r
    except BaseException as exc:  # noqa
        return {'violates': False, 'error': '%r %s' % (exc, traceback.format_exc()[-800:])}


def _isolated(mod, it):
    import os
    rd, wr = os.pipe()
    pid = os.fork()
    if pid == 0:
        code = 0
        try:
            os.close(rd)
            data = json.dumps(_one(mod, it), default=str).encode()
            with os.fdopen(wr, 'wb') as f:
                f.write(data)
        except BaseException:  # noqa
            code = 3
        finally:
            os._exit(code)
    os.close(wr)
    with os.fdopen(rd, 'rb') as f:
        data = f.read()
    _, status = os.waitpid(pid, 0)
    if not data:
        return {'violates': False, 'error': 'replay child died (status %d)' % status}
    return json.loads(data)


def main() -> int:
    check_id, inp, outp = sys.argv[1:4]
    assert 'pysymex.loader' not in sys.modules
    mod = importlib.import_module('checks.%s' % check_id.lower())
    with open(inp) as f:
        items = json.load(f)
    # pre-import what the check touches, then one forked child per witness: a replay must not see process-global
    # state (caches, mutable defaults, class attributes) left behind by the replay before it
    for fq in getattr(mod, 'FUNCTIONS', []):
        try:
            importlib.import_module(fq.split(':')[0])
        except Exception:  # noqa: BLE001
            pass
    out = []
    for it in items:
        out.append(_isolated(mod, it))
    with open(outp, 'w') as f:
        json.dump(out, f, default=str)
    return 0


if __name__ == '__main__':
    sys.exit(main())

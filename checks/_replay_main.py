"""Replay witnesses against plain, uninstrumented pymap (no import hook).

usage: python -m checks._replay_main <ID> <in.json> <out.json>
"""
from __future__ import annotations

import importlib
import json
import sys
import traceback


def main() -> int:
    check_id, inp, outp = sys.argv[1:4]
    assert 'pysymex.loader' not in sys.modules
    mod = importlib.import_module('checks.%s' % check_id.lower())
    with open(inp) as f:
        items = json.load(f)
    out = []
    for it in items:
        try:
            r = mod.replay(it['harness'], it['witness'])
            if isinstance(r, bool):
                r = {'violates': r}
            out.append(r)
        except BaseException as exc:  # noqa
            out.append({'violates': False, 'error': '%r %s' % (exc, traceback.format_exc()[-800:])})
    with open(outp, 'w') as f:
        json.dump(out, f, default=str)
    return 0


if __name__ == '__main__':
    sys.exit(main())

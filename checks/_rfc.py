"""Independent strict recogniser for the RFC 3501 response-grammar fragments
that C07 states: complete lines ending in CRLF, literal counts, quoted-string
content, balanced lists.  Works on a list of items that are ints (replay) or
int|SymInt (under the engine, where every ``if`` on a symbolic byte forks, so
each path ends with a definite verdict)."""
from __future__ import annotations


class Malformed(Exception):
    pass


def _digits(items, pos):
    n = 0
    k = 0
    while pos < len(items) and 48 <= items[pos] <= 57:
        n = n * 10 + (items[pos] - 48)
        pos += 1
        k += 1
    return n, pos, k


def scan_quoted(items, pos):
    """items[pos] is the opening quote; returns position after the closing one"""
    assert items[pos] == 34
    pos += 1
    while True:
        if pos >= len(items):
            raise Malformed('unterminated quoted string')
        c = items[pos]
        if not ((c == 34) | (c == 92) | (c == 13) | (c == 10) | (c == 0)):
            pos += 1
            continue
        if c == 34:
            return pos + 1
        if c == 92:
            if pos + 1 >= len(items):
                raise Malformed('dangling backslash in quoted string')
            d = items[pos + 1]
            if d == 34 or d == 92:
                pos += 2
                continue
            raise Malformed('backslash before a non-special in quoted string')
        if c == 13 or c == 10 or c == 0:
            raise Malformed('CR/LF/NUL inside quoted string')
        pos += 1


def scan_data(items, pos=0, end=None, text_mode=False):
    """Scan response data up to the final CRLF.  text_mode: human-readable
    resp-text (only CR/LF/NUL are forbidden, nothing is structured)."""
    n = len(items) if end is None else end
    depth = 0
    while True:
        if pos >= n:
            raise Malformed('line does not end in CRLF')
        c = items[pos]
        if not ((c == 13) | (c == 10) | (c == 0) | (c == 34) | (c == 123) | (c == 40) | (c == 41)):
            pos += 1
            continue
        if c == 13:
            if pos + 2 == n and items[pos + 1] == 10:
                if depth != 0:
                    raise Malformed('unbalanced parentheses at end of line')
                return
            raise Malformed('CR not followed by final LF')
        if c == 10:
            raise Malformed('bare LF')
        if c == 0:
            raise Malformed('NUL outside a literal')
        if text_mode:
            pos += 1
            continue
        if c == 34:
            pos = scan_quoted(items, pos)
            continue
        if c == 123:  # '{' must start a literal prefix {n}CRLF
            cnt, p2, k = _digits(items, pos + 1)
            if k and p2 + 2 < n and items[p2] == 125 and items[p2 + 1] == 13 and items[p2 + 2] == 10:
                start = p2 + 3
                if start + cnt > n:
                    raise Malformed('literal announces %d bytes, only %d follow' % (cnt, n - start))
                pos = start + cnt
                continue
            raise Malformed('brace that is not a literal prefix')
        if c == 40:
            depth += 1
        elif c == 41:
            depth -= 1
            if depth < 0:
                raise Malformed('unbalanced closing parenthesis')
        pos += 1


def check_line(items, structured=True):
    """a complete response line: tag SP data CRLF"""
    if len(items) < 4:
        raise Malformed('too short')
    # tag: up to first space, no specials
    pos = 0
    while pos < len(items) and items[pos] != 32:
        c = items[pos]
        if (c <= 32) | (c >= 127) | (c == 34) | (c == 40) | (c == 41) | (c == 123) | (c == 92) | (c == 37):
            raise Malformed('bad tag byte %r' % (c,))
        pos += 1
    if pos == 0 or pos >= len(items):
        raise Malformed('no tag')
    scan_data(items, pos + 1, text_mode=not structured)


def check_string(items):
    """one nstring/astring/literal token standing alone"""
    if not items:
        raise Malformed('empty token')
    c = items[0]
    if c == 34:
        end = scan_quoted(items, 0)
        if end != len(items):
            raise Malformed('bytes after the closing quote')
        return 'quoted'
    if c == 123 or (c == 126 and len(items) > 1 and items[1] == 123):
        p = 1 if c == 123 else 2
        cnt, p2, k = _digits(items, p)
        if not k or p2 + 3 > len(items) or items[p2] != 125 or items[p2 + 1] != 13 or items[p2 + 2] != 10:
            raise Malformed('bad literal prefix')
        if len(items) - (p2 + 3) != cnt:
            raise Malformed('literal announces %d bytes, %d follow' % (cnt, len(items) - (p2 + 3)))
        return 'literal'
    # atom / NIL
    for c in items:
        if (c <= 32) | (c >= 127) | (c == 34) | (c == 40) | (c == 41) | (c == 123) | (c == 92) \
                | (c == 37) | (c == 42):
            raise Malformed('bad atom byte %r' % (c,))
    return 'atom'

"""Strict recogniser for the structured FETCH data items of RFC 3501 section 9: envelope, body (BODY and
BODYSTRUCTURE, with extension data) and address lists.  Works on concrete bytes (the server's output for a stored
message whose header values were drawn from a concrete vocabulary).  Independent of pymap: written from the ABNF.

  envelope        = "(" env-date SP env-subject SP env-from SP env-sender SP env-reply-to SP env-to SP env-cc SP
                    env-bcc SP env-in-reply-to SP env-message-id ")"
  env-from ...    = "(" 1*address ")" / nil          address = "(" nstring SP nstring SP nstring SP nstring ")"
  body            = "(" (body-type-1part / body-type-mpart) ")"
  body-type-mpart = 1*body SP media-subtype [SP body-ext-mpart]
  body-type-1part = (body-type-basic / body-type-msg / body-type-text) [SP body-ext-1part]
  body-fields     = body-fld-param SP body-fld-id SP body-fld-desc SP body-fld-enc SP body-fld-octets
  body-fld-param  = "(" string SP string *(SP string SP string) ")" / nil
  body-fld-dsp    = "(" string SP body-fld-param ")" / nil
  body-fld-lang   = nstring / "(" string *(SP string) ")"
  body-extension  = nstring / number / "(" body-extension *(SP body-extension) ")"
"""
from __future__ import annotations


class Malformed(Exception):
    pass


class Parser:
    def __init__(self, data: bytes, pos: int = 0):
        self.b = data
        self.pos = pos

    # ---- lexical level
    def peek(self, n=1):
        return self.b[self.pos:self.pos + n]

    def expect(self, lit: bytes, what=''):
        if self.b[self.pos:self.pos + len(lit)] != lit:
            raise Malformed('%s: expected %r at %d, found %r' % (what or 'syntax', lit, self.pos, self.b[self.pos:self.pos + 12]))
        self.pos += len(lit)

    def sp(self, what=''):
        self.expect(b' ', what)

    def is_nil(self):
        return self.peek(3).upper() == b'NIL' and self.peek(4)[3:4] in (b' ', b')', b'\r', b'')

    def number(self, what='number'):
        start = self.pos
        while self.peek().isdigit():
            self.pos += 1
        if start == self.pos:
            raise Malformed('%s: expected a number at %d, found %r' % (what, start, self.b[start:start + 12]))
        return int(self.b[start:self.pos])

    def string(self, what='string'):
        c = self.peek()
        if c == b'"':
            self.pos += 1
            out = bytearray()
            while True:
                if self.pos >= len(self.b):
                    raise Malformed('%s: unterminated quoted string' % what)
                ch = self.b[self.pos]
                if ch == 0x22:
                    self.pos += 1
                    return bytes(out)
                if ch == 0x5c:
                    nxt = self.b[self.pos + 1:self.pos + 2]
                    if nxt not in (b'"', b'\\'):
                        raise Malformed('%s: backslash before %r in a quoted string' % (what, nxt))
                    out += nxt
                    self.pos += 2
                    continue
                if ch in (0, 10, 13) or ch > 0x7f:
                    raise Malformed('%s: byte 0x%02x inside a quoted string' % (what, ch))
                out.append(ch)
                self.pos += 1
        if c in (b'{', b'~'):
            if c == b'~':
                self.pos += 1
            self.expect(b'{', what)
            n = self.number(what + ' literal size')
            self.expect(b'}\r\n', what + ' literal header')
            if self.pos + n > len(self.b):
                raise Malformed('%s: literal announces %d octets, %d follow' % (what, n, len(self.b) - self.pos))
            out = self.b[self.pos:self.pos + n]
            self.pos += n
            return out
        raise Malformed('%s: expected a string at %d, found %r' % (what, self.pos, self.b[self.pos:self.pos + 12]))

    def nstring(self, what='nstring'):
        if self.is_nil():
            self.pos += 3
            return None
        return self.string(what)

    # ---- envelope
    def address(self):
        self.expect(b'(', 'address')
        self.nstring('addr-name')
        self.sp('address')
        self.nstring('addr-adl')
        self.sp('address')
        self.nstring('addr-mailbox')
        self.sp('address')
        self.nstring('addr-host')
        self.expect(b')', 'address')

    def address_list(self, what):
        if self.is_nil():
            self.pos += 3
            return
        self.expect(b'(', what)
        n = 0
        while self.peek() == b'(':
            self.address()
            n += 1
        if n == 0:
            raise Malformed('%s: an address list without an address (must be NIL)' % what)
        self.expect(b')', what)

    def envelope(self):
        self.expect(b'(', 'envelope')
        self.nstring('env-date')
        self.sp('envelope')
        self.nstring('env-subject')
        for what in ('env-from', 'env-sender', 'env-reply-to', 'env-to', 'env-cc', 'env-bcc'):
            self.sp('envelope')
            self.address_list(what)
        self.sp('envelope')
        self.nstring('env-in-reply-to')
        self.sp('envelope')
        self.nstring('env-message-id')
        self.expect(b')', 'envelope')

    # ---- body
    def fld_param(self, what='body-fld-param'):
        if self.is_nil():
            self.pos += 3
            return
        self.expect(b'(', what)
        self.string(what + ' name')
        self.sp(what)
        self.string(what + ' value')
        while self.peek() == b' ':
            self.sp(what)
            self.string(what + ' name')
            self.sp(what)
            self.string(what + ' value')
        self.expect(b')', what)

    def fld_dsp(self):
        if self.is_nil():
            self.pos += 3
            return
        self.expect(b'(', 'body-fld-dsp')
        self.string('body-fld-dsp type')
        self.sp('body-fld-dsp')
        self.fld_param('body-fld-dsp parameters')
        self.expect(b')', 'body-fld-dsp')

    def fld_lang(self):
        if self.peek() == b'(':
            self.expect(b'(', 'body-fld-lang')
            self.string('body-fld-lang')
            while self.peek() == b' ':
                self.sp()
                self.string('body-fld-lang')
            self.expect(b')', 'body-fld-lang')
        else:
            self.nstring('body-fld-lang')

    def extension(self):
        if self.peek() == b'(':
            self.expect(b'(')
            self.extension()
            while self.peek() == b' ':
                self.sp()
                self.extension()
            self.expect(b')', 'body-extension')
        elif self.peek().isdigit():
            self.number()
        else:
            self.nstring('body-extension')

    def ext_tail(self):
        """[SP body-fld-dsp [SP body-fld-lang [SP body-fld-loc *(SP body-extension)]]]"""
        if self.peek() != b' ':
            return
        self.sp()
        self.fld_dsp()
        if self.peek() != b' ':
            return
        self.sp()
        self.fld_lang()
        if self.peek() != b' ':
            return
        self.sp()
        self.nstring('body-fld-loc')
        while self.peek() == b' ':
            self.sp()
            self.extension()

    def fields(self):
        self.fld_param()
        self.sp('body-fields')
        self.nstring('body-fld-id')
        self.sp('body-fields')
        self.nstring('body-fld-desc')
        self.sp('body-fields')
        self.string('body-fld-enc')
        self.sp('body-fields')
        self.number('body-fld-octets')

    def body(self, depth=0):
        if depth > 200:
            raise Malformed('body nested deeper than 200')
        self.expect(b'(', 'body')
        if self.peek() == b'(':
            n = 0
            while self.peek() == b'(':
                self.body(depth + 1)
                n += 1
            self.sp('body-type-mpart')
            self.string('media-subtype')
            if self.peek() == b' ':
                self.sp()
                self.fld_param('body-ext-mpart parameters')
                self.ext_tail()
        else:
            mtype = self.string('media type (a multipart must contain at least one body)')
            self.sp('body-type-1part')
            msub = self.string('media-subtype')
            self.sp('body-type-1part')
            self.fields()
            if mtype.upper() == b'MESSAGE' and msub.upper() == b'RFC822':
                self.sp('body-type-msg')
                self.envelope()
                self.sp('body-type-msg')
                self.body(depth + 1)
                self.sp('body-type-msg')
                self.number('body-fld-lines')
            elif mtype.upper() == b'TEXT':
                self.sp('body-type-text')
                self.number('body-fld-lines')
            if self.peek() == b' ':
                self.sp()
                self.nstring('body-fld-md5')
                self.ext_tail()
        self.expect(b')', 'body')

    # ---- anything else: balanced, strings well-formed
    def generic(self):
        c = self.peek()
        if c == b'(':
            self.expect(b'(')
            if self.peek() != b')':
                self.generic()
                while self.peek() == b' ':
                    self.sp()
                    self.generic()
            self.expect(b')', 'list')
        elif c in (b'"', b'{', b'~'):
            self.string()
        else:
            start = self.pos
            while self.pos < len(self.b) and self.b[self.pos:self.pos + 1] not in (b' ', b')', b'(', b'\r', b'\n', b'"'):
                self.pos += 1
            if start == self.pos:
                raise Malformed('expected a value at %d, found %r' % (start, self.b[start:start + 12]))


def check_fetch_responses(out: bytes):
    """every `* n FETCH (...)` in the output: ENVELOPE, BODY and BODYSTRUCTURE values must derive from the grammar, all
    other values must be balanced with well-formed strings.  returns the number of structured values checked"""
    n = 0
    pos = 0
    while True:
        i = out.find(b' FETCH (', pos)
        if i < 0:
            return n
        ls = out.rfind(b'\r\n', 0, i)
        ls = ls + 2 if ls >= 0 else 0
        head = out[ls:i]
        if not (head.startswith(b'* ') and head[2:].isdigit()):
            pos = i + 1
            continue
        p = Parser(out, i + len(b' FETCH ('))
        first = True
        while p.peek() != b')':
            if not first:
                p.sp('between FETCH items')
            first = False
            start = p.pos
            while p.pos < len(out) and out[p.pos:p.pos + 1] not in (b' ', b'[', b'\r'):
                p.pos += 1
            name = out[start:p.pos].upper()
            if p.peek() == b'[':
                # section specification, may contain a header field list with strings
                depth = 0
                while True:
                    ch = p.peek()
                    if ch == b'':
                        raise Malformed('unterminated section')
                    if ch in (b'"', b'{'):
                        p.string('section')
                        continue
                    p.pos += 1
                    if ch == b'[':
                        depth += 1
                    elif ch == b']':
                        depth -= 1
                        if depth == 0:
                            break
                if p.peek() == b'<':
                    while p.peek() != b'>':
                        p.pos += 1
                    p.pos += 1
                p.sp('after section')
                p.nstring('section data')
                continue
            p.sp('after item name %r' % name)
            if name == b'ENVELOPE':
                p.envelope()
                n += 1
            elif name in (b'BODYSTRUCTURE', b'BODY'):
                p.body()
                n += 1
            else:
                p.generic()
        p.expect(b')\r\n', 'end of FETCH response')
        pos = p.pos

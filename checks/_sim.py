"""Session-level simulation shared by C01/C02/C10/C12/C17 (and C05).

Drives the *real* ``ConnectionState.do_command`` / ``BaseSession`` / dict
backend with command objects, for several sessions on one user's mailbox set.
The same code runs in two modes:

* under the pysymex engine, where UIDs, sequence-set numbers etc. may be
  symbolic (Python ``if`` on them forks; ``check(cond)`` collects non-forking
  proof obligations);
* in plain replay on uninstrumented pymap with concrete values.

Contains: a shadow client per session (applies untagged responses in order),
a glass-box dump of the stored mailbox, and a small reference model of the
message commands (RFC 3501 semantics) used by C10/C12.
"""
from __future__ import annotations

from argparse import Namespace


class FakeArgs(Namespace):
    debug = False
    demo_data = None
    demo_user = 'testuser'
    demo_password = 'testpass'

    def __getattr__(self, key):
        return None


def run_coro(c):
    """drive a coroutine that must not suspend (uncontended locks)"""
    try:
        c.send(None)
    except StopIteration as e:
        return e.value
    c.close()
    raise RuntimeError('coroutine suspended unexpectedly')


def make_config(g, tls=False, **overrides):
    from pysasl.hashing import BuiltinHash
    args = FakeArgs()
    if tls:
        args.tls = True
    return g['Config'].from_args(
        args, hash_context=BuiltinHash(hash_name='sha1', salt_len=0, rounds=1),
        cpu_subsystem=g['Subsystem'].for_asyncio(), invalid_user_sleep=0.0, **overrides)


def bindings():
    """pymap names used by the simulation (import in the caller's mode)"""
    from datetime import datetime, timezone
    from pymap.backend.dict import Config, Session
    from pymap.concurrent import Subsystem
    from pymap.backend.dict.mailbox import MailboxSet, MailboxData, Message
    from pymap.backend.dict.filter import FilterSet
    from pymap.imap.state import ConnectionState
    from pymap.exceptions import ResponseError, CloseConnection
    from pymap.flags import FlagOp
    from pymap.parsing.message import AppendMessage
    from pymap.parsing.specials import SequenceSet, Mailbox, FetchAttribute, Flag, \
        ExtensionOptions, SearchKey, StatusAttribute
    from pymap.parsing.specials.flag import Seen, Deleted, Recent, Flagged, Answered, Draft
    from pymap.parsing.command.any import NoOpCommand, CapabilityCommand, LogoutCommand
    from pymap.parsing.command.auth import AppendCommand, SelectCommand, ExamineCommand, \
        StatusCommand, CreateCommand, DeleteCommand, RenameCommand, ListCommand, LSubCommand, \
        SubscribeCommand, UnsubscribeCommand
    from pymap.parsing.command.select import CheckCommand, CloseCommand, ExpungeCommand, \
        UidExpungeCommand, CopyCommand, UidCopyCommand, MoveCommand, UidMoveCommand, \
        FetchCommand, UidFetchCommand, StoreCommand, UidStoreCommand, SearchCommand, \
        UidSearchCommand
    from pymap.parsing.response import ResponseOk, ResponseNo, ResponseBad, ResponseBye
    from pymap.parsing.response.specials import ExpungeResponse, ExistsResponse, \
        RecentResponse, FetchResponse, SearchResponse, FlagsResponse, ListResponse, LSubResponse, \
        StatusResponse
    from pymap.parsing.response.code import AppendUid, CopyUid
    from pymap.parsing.primitives import List, Number
    return dict(locals())


class Client:
    """what an IMAP client knows: one entry per sequence number"""

    def __init__(self):
        self.selected = False
        self.entries = []          # each: {'uid': x|None, 'flags': frozenset|None}
        self.recent = None
        self.readonly = False
        self.errors = []


class World:
    def __init__(self, g, nsessions=2, base_uid=None, check=None, mailboxes=('Other',)):
        self.g = g
        self.check = check or (lambda c, msg='': None)
        cfg = make_config(g)
        self.config = cfg
        self.mset = g['MailboxSet']()
        self.fset = g['FilterSet']()
        for name in mailboxes:
            run_coro(self.mset.add_mailbox(name))
        if base_uid is not None:
            self.mset._inbox._max_uid = base_uid
            for name in mailboxes:
                self.mbx(name)._max_uid = base_uid
        self.states = []
        self.clients = []
        for _ in range(nsessions):
            st = g['ConnectionState'](None, cfg)
            st._session = g['Session']('testuser', cfg, self.mset, self.fset)
            st._capability.extend(cfg.login_capability)
            self.states.append(st)
            self.clients.append(Client())
        self.ntag = 0
        self.log = []

    # ------------------------------------------------------------ access
    def mbx(self, name):
        return run_coro(self.mset.get_mailbox(name))

    def dump(self, name='INBOX'):
        """glass-box: {uid: (permanent flags, recent bit)} in UID order"""
        m = self.mbx(name)
        return [(uid, msg.permanent_flags, msg.recent) for uid, msg in m._messages.items()]

    def tag(self):
        self.ntag += 1
        return b'a%d' % self.ntag

    def seqset(self, elems, uid):
        """elems: list of int|'*'|(a,b)"""
        SS = self.g['SequenceSet']
        mx = SS._max
        conv = lambda x: mx if isinstance(x, str) else x  # noqa: E731
        seqs = [(conv(e[0]), conv(e[1])) if isinstance(e, tuple) else conv(e) for e in elems]
        return SS(seqs, uid)

    # ------------------------------------------------------------ running
    def run(self, s, cmd):
        """execute one command object in session s; returns (cond, response)"""
        st = self.states[s]
        g = self.g
        try:
            resp = run_coro(st.do_command(cmd))
        except g['CloseConnection'] as exc:
            resp = exc.get_response(cmd.tag)
            cond = 'BYE'
            self._apply(s, cmd, resp)
            return cond, resp
        except g['ResponseError'] as exc:
            resp = exc.get_response(cmd.tag)
        run_coro(st.do_cleanup())
        cond = 'OK' if isinstance(resp, g['ResponseOk']) else \
            'NO' if isinstance(resp, g['ResponseNo']) else \
            'BAD' if isinstance(resp, g['ResponseBad']) else 'OTHER'
        self._apply(s, cmd, resp)
        return cond, resp

    def _apply(self, s, cmd, resp):
        """shadow client: apply the untagged responses in the order written"""
        g = self.g
        c = self.clients[s]
        is_select = isinstance(cmd, g['SelectCommand'])
        hide_forbidden = type(cmd) in (g['FetchCommand'], g['StoreCommand'], g['SearchCommand'])
        if is_select:
            c.selected = False
            c.entries = []
        silent_targets = None
        if type(cmd) in (g['StoreCommand'], g['UidStoreCommand']) and getattr(cmd, 'silent', False):
            # what the client addresses is decided by what it knows when it sends the command
            silent_targets = self._silent_targets(c, cmd)
        for r in getattr(resp, '_untagged', []):
            if isinstance(r, g['ExpungeResponse']):
                if hide_forbidden:
                    c.errors.append('EXPUNGE sent in reply to non-UID %s' % cmd.command.decode())
                seq = r.seq
                if not isinstance(seq, int):
                    c.errors.append('non-concrete EXPUNGE number')
                    continue
                if not (1 <= seq <= len(c.entries)):
                    c.errors.append('EXPUNGE %d outside 1..%d' % (seq, len(c.entries)))
                    continue
                del c.entries[seq - 1]
            elif isinstance(r, g['ExistsResponse']):
                if r.num < len(c.entries):
                    c.errors.append('EXISTS %d shrinks from %d' % (r.num, len(c.entries)))
                    continue
                c.entries += [{'uid': None, 'flags': None} for _ in range(r.num - len(c.entries))]
            elif isinstance(r, g['RecentResponse']):
                c.recent = r.num
            elif isinstance(r, g['FetchResponse']):
                if not (1 <= r.seq <= len(c.entries)):
                    c.errors.append('FETCH %d outside 1..%d' % (r.seq, len(c.entries)))
                    continue
                ent = c.entries[r.seq - 1]
                for attr, val in r.data.items():
                    name = attr.value
                    if name == b'UID':
                        uid = self._fetch_uid(val)
                        if uid is not None:
                            if ent['uid'] is not None:
                                self.check(ent['uid'] == uid,
                                           'FETCH %d labels a different UID than the client holds' % r.seq)
                            ent['uid'] = uid
                    elif name == b'FLAGS':
                        fl = self._fetch_flags(val)
                        if fl is not None:
                            ent['flags'] = fl
        if silent_targets is not None and isinstance(resp, g['ResponseOk']):
            # .SILENT: the server does not echo the client's own change, the client takes it as done
            self._own_silent_store(c, cmd, silent_targets)
        if is_select and isinstance(resp, g['ResponseOk']):
            c.selected = True
            c.readonly = bool(cmd.readonly)
        if isinstance(cmd, g['CloseCommand']) and isinstance(resp, g['ResponseOk']):
            c.selected = False
            c.entries = []

    def _silent_targets(self, c, cmd):
        g = self.g
        uid_cmd = isinstance(cmd, g['UidStoreCommand'])
        mx = g['SequenceSet']._max
        n = len(c.entries)

        def addressed(x, top):
            for el in cmd.sequence_set.value:
                lo, hi = el if isinstance(el, tuple) else (el, el)
                lo = top if lo == mx else lo
                hi = top if hi == mx else hi
                if top is None and (lo is None or hi is None):
                    continue
                if bool(lo <= hi):
                    if bool(lo <= x) and bool(x <= hi):
                        return True
                elif bool(hi <= x) and bool(x <= lo):
                    return True
            return False
        top_uid = None
        for ent in c.entries:
            if ent['uid'] is not None:
                top_uid = ent['uid']
        out = []
        for i, ent in enumerate(c.entries, 1):
            if uid_cmd:
                if ent['uid'] is None or not addressed(ent['uid'], top_uid):
                    continue
            elif not addressed(i, n):
                continue
            out.append(ent)
        return out

    def _own_silent_store(self, c, cmd, targets):
        g = self.g
        permitted = (g['Seen'], g['Deleted'], g['Flagged'], g['Answered'], g['Draft'])
        flags = frozenset(f for f in cmd.flag_set if f in permitted)
        for ent in c.entries:
            if ent['flags'] is None or not any(ent is t for t in targets):
                continue
            keep = frozenset(f for f in ent['flags'] if f not in permitted)
            cur = frozenset(f for f in ent['flags'] if f in permitted)
            if cmd.mode == g['FlagOp'].ADD:
                cur = cur | flags
            elif cmd.mode == g['FlagOp'].DELETE:
                cur = cur - flags
            else:
                cur = flags
            ent['flags'] = keep | cur

    def _fetch_uid(self, val):
        v = getattr(val, '_value', None)
        if v is None:
            v = getattr(val, 'value', None)
        if v is None and hasattr(val, 'get_value'):
            v = val.get_value()
        return getattr(v, 'value', None)

    def _fetch_flags(self, val):
        v = getattr(val, '_value', None)
        if v is None:
            v = getattr(val, 'value', None)
        if v is None and hasattr(val, 'get_value'):
            try:
                v = val.get_value()
            except TypeError:
                return None
        items = getattr(v, 'items', None)
        if items is None:
            return None
        return frozenset(items)

    # ------------------------------------------------------------ oracles
    def server_view(self, s):
        sel = self.states[s]._selected
        if sel is None:
            return None
        return list(sel.messages._sorted)

    def check_client_matches_server(self, s, where=''):
        """C01: count and seq->uid mapping identical"""
        c = self.clients[s]
        for e in c.errors:
            return e
        view = self.server_view(s)
        if view is None:
            if c.selected:
                return 'client thinks a mailbox is selected, server does not'
            return None
        if not c.selected:
            return 'server has a selection the client was not told about'
        if len(view) != len(c.entries):
            return 'message count differs %s: client %d, server %d' % (where, len(c.entries), len(view))
        for i, (ent, uid) in enumerate(zip(c.entries, view)):
            if ent['uid'] is not None:
                self.check(ent['uid'] == uid, 'sequence %d maps to different UIDs %s' % (i + 1, where))
        return None

    def check_converged(self, s, name='INBOX'):
        """C02: after a quiescent NOOP the session view equals the store"""
        sel = self.states[s]._selected
        store = self.dump(name)
        view = list(sel.messages._sorted)
        if len(view) != len(store):
            return 'view has %d messages, mailbox has %d' % (len(view), len(store))
        for v, (uid, flags, _) in zip(view, store):
            self.check(v == uid, 'view UID differs from stored UID')
            cached = sel.messages.get(v)
            if cached is None:
                return 'no cached message for a view UID'
            if cached.permanent_flags != flags:
                return 'cached flags %r != stored %r' % (sorted(map(bytes, cached.permanent_flags)),
                                                         sorted(map(bytes, flags)))
        # what the *client* believes: the flags of the last FETCH it was sent for each message
        c = self.clients[s]
        recent = self.g['Recent']
        if len(c.entries) == len(store):
            for ent, (uid, flags, _) in zip(c.entries, store):
                if ent['flags'] is not None and frozenset(f for f in ent['flags'] if f != recent) != frozenset(flags):
                    return 'the client was last told flags %r, the mailbox has %r' % (
                        sorted(str(f) for f in ent['flags'] if f != recent), sorted(str(f) for f in flags))
        return None

    def learn_uids(self, s):
        """fill the shadow client's UIDs from the server view (what a client
        gets from UID FETCH 1:* (UID)) -- used after SELECT"""
        view = self.server_view(s) or []
        c = self.clients[s]
        if len(view) == len(c.entries):
            for ent, uid in zip(c.entries, view):
                if ent['uid'] is None:
                    ent['uid'] = uid

    # ------------------------------------------------------------ commands
    def select(self, s, name='INBOX', readonly=False):
        g = self.g
        cls = g['ExamineCommand'] if readonly else g['SelectCommand']
        cmd = cls(self.tag(), g['Mailbox'](name), g['ExtensionOptions'].empty())
        r = self.run(s, cmd)
        self.learn_uids(s)
        return r

    def noop(self, s):
        return self.run(s, self.g['NoOpCommand'](self.tag()))

    def check_cmd(self, s):
        return self.run(s, self.g['CheckCommand'](self.tag()))

    def close(self, s):
        return self.run(s, self.g['CloseCommand'](self.tag()))

    def append(self, s, name='INBOX', flags=(), n=1, literal=b'x', when=None):
        g = self.g
        if when is None:
            when = g['datetime'](2020, 1, 1, tzinfo=g['timezone'].utc)
        msgs = [g['AppendMessage'](literal, when, frozenset(flags)) for _ in range(n)]
        return self.run(s, g['AppendCommand'](self.tag(), g['Mailbox'](name), msgs))

    def store(self, s, elems, flags, mode, uid=False, silent=False):
        g = self.g
        cls = g['UidStoreCommand'] if uid else g['StoreCommand']
        op = {'ADD': g['FlagOp'].ADD, 'DELETE': g['FlagOp'].DELETE, 'REPLACE': g['FlagOp'].REPLACE}[mode]
        return self.run(s, cls(self.tag(), self.seqset(elems, uid), list(flags), op, silent))

    def expunge(self, s, elems=None):
        g = self.g
        if elems is None:
            return self.run(s, g['ExpungeCommand'](self.tag()))
        return self.run(s, g['UidExpungeCommand'](self.tag(), self.seqset(elems, True)))

    def fetch(self, s, elems, attrs=(b'FLAGS',), uid=False):
        g = self.g
        cls = g['UidFetchCommand'] if uid else g['FetchCommand']
        alist = []
        for a in attrs:
            if a == b'BODY[]':
                alist.append(g['FetchAttribute'](b'BODY', g['FetchAttribute'].Section([])))
            elif a == b'BODY.PEEK[]':
                alist.append(g['FetchAttribute'](b'BODY.PEEK', g['FetchAttribute'].Section([])))
            else:
                alist.append(g['FetchAttribute'](a))
        if uid and not any(a == b'UID' for a in attrs):
            alist.append(g['FetchAttribute'](b'UID'))
        return self.run(s, cls(self.tag(), self.seqset(elems, uid), alist))

    def copy(self, s, elems, dest='Other', uid=False, move=False):
        g = self.g
        cls = {(False, False): g['CopyCommand'], (True, False): g['UidCopyCommand'],
               (False, True): g['MoveCommand'], (True, True): g['UidMoveCommand']}[(uid, move)]
        return self.run(s, cls(self.tag(), self.seqset(elems, uid), g['Mailbox'](dest)))


# ---------------------------------------------------------------- reference
class Model:
    """plain reference model of one mailbox: list of [uid, flags(set of
    bytes)], UID order = append order"""

    def __init__(self, permitted):
        self.msgs = []
        self.permitted = set(permitted)

    def resolve(self, elems, uid, view):
        """addressed positions (0-based indexes into view) per RFC 3501:
        numbers, reversed ranges, '*', out of range.  view = list of uids the
        session currently sees (sequence numbers are positions in it).
        Returns a list of booleans/conditions per position (non-forking when
        symbolic)."""
        raise NotImplementedError

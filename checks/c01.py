"""C01 - sequence numbers: the client view never diverges from the server.

One inductive step of the real SelectedMailbox / SynchronizedMessages code
from an arbitrary reachable view: n messages with *symbolic* UIDs (only their
order is known), optionally a set of expunges already learnt while EXPUNGE was
forbidden (pending), then an arbitrary update set (expunges, flag changes,
k new messages with greater UIDs) under hide_expunged or not, then fork().
A shadow client applies the untagged responses in order.
"""
from __future__ import annotations

ID = 'C01'
LEVEL = 'model_checking'
TIME_BUDGET = {'quick': 900, 'thorough': 5400}
EXPLANATION = (
    'Bounded symbolic execution of the real selected-mailbox synchronisation: '
    'UIDs are unbounded z3 integers constrained only by their order; which '
    'messages are expunged / pending / changed and whether EXPUNGE is hidden '
    'are explored exhaustively as forks; each path ends in a proof query that '
    'the shadow client list equals the server list position by position and '
    'that the representation invariant is re-established (which lets one step '
    'stand for histories of any length).')
FUNCTIONS = [
    'pymap.selected:SelectedMailbox.add_updates', 'pymap.selected:SelectedMailbox.set_messages',
    'pymap.selected:SelectedMailbox.fork', 'pymap.selected:SelectedMailbox._compare',
    'pymap.selected:SynchronizedMessages._update', 'pymap.selected:SynchronizedMessages._remove',
    'pymap.selected:SynchronizedMessages.get_uids', 'pymap.selected:_Frozen.__init__',
    'pymap.parsing.response.specials:ExpungeResponse.__init__',
    'pymap.parsing.response.specials:ExistsResponse.__init__',
    'pymap.parsing.response.specials:FetchResponse.__init__',
    'pymap.flags:SessionFlags.remove', 'pymap.imap.state:ConnectionState.do_command',
    'pymap.imap.state:ConnectionState.do_store', 'pymap.imap.state:ConnectionState.do_fetch',
    'pymap.imap.state:ConnectionState.do_move', 'pymap.backend.session:BaseSession.move_messages',
    'pymap.backend.session:BaseSession.update_flags', 'pymap.parsing.response:CommandResponse.add_untagged',
]
ASSUMPTIONS = [
    'A-UID: a UID first reported to a session is greater than every UID it has been told before '
    '(established for the dict backend by C04)',
    'view size n <= bound, new messages k <= bound',
    'interleavings at await points are represented by their effect: an arbitrary update set arrives '
    'between two forks',
]
STUBS = ['the command object passed to fork() is a stand-in exposing only .uid']
OUTSIDE = ['maildir directory scans (stale toc)', 'views larger than the bound']

_g: dict = {}
_ig: dict = {}     # bindings of the IDLE streaming scenario


def setup() -> None:
    from datetime import datetime
    from pymap.selected import SelectedMailbox
    from pymap.flags import PermanentFlags, SessionFlags
    from pymap.message import BaseMessage
    from pymap.parsing.specials import ObjectId
    from pymap.parsing.specials.flag import Seen, Deleted, Recent
    from pymap.parsing.response.specials import ExpungeResponse, ExistsResponse, \
        FetchResponse, RecentResponse

    class Msg(BaseMessage):
        async def load_content(self, requirement):
            raise NotImplementedError
    _g.update(locals())
    from checks import c02
    c02.setup()
    from checks import _sim
    _ig.update(_sim.bindings())
    _ig['_sim'] = _sim
    from pymap.imap import IMAPConnection
    from pymap.backend.dict import Login
    from pymap.user import UserMetadata
    from pymap.context import subsystem, connection_exit
    _ig.update({'IMAPConnection': IMAPConnection, 'Login': Login, 'UserMetadata': UserMetadata, 'subsystem': subsystem,
                'connection_exit': connection_exit})


class _Cmd:
    def __init__(self, uid):
        self.uid = uid


def _scenario(n, k, uids, pend, hide, exp, chg, uidcmd, use_set, g, check):
    """Runs the scenario on the given pymap bindings g.  `check` collects
    obligations: check(cond) where cond may be symbolic or bool.  Returns False
    if a structural violation was found."""
    DT = g['datetime'](2020, 1, 1)
    mk = lambda u, f=(): g['Msg'](u, DT, f)  # noqa: E731
    old, new = uids[:n], uids[n:]
    sel = g['SelectedMailbox'](g['ObjectId'](b'x'), False,
                               g['PermanentFlags']([g['Seen'], g['Deleted']]),
                               g['SessionFlags']([]))
    sel.add_updates([mk(u) for u in old], [])
    sel, resp = sel.fork(_Cmd(False))
    if list(resp):
        return 'untagged data on first fork'
    pending = [u for i, u in enumerate(old) if pend[i]]
    if pending:
        sel.hide_expunged = True
        sel.add_updates([], pending)
        sel, resp = sel.fork(_Cmd(False))
        resp = list(resp)
        if any(isinstance(r, g['ExpungeResponse']) for r in resp):
            return 'EXPUNGE while hidden (pre-state)'
    client = list(old)
    expunged = [u for i, u in enumerate(old) if exp[i]]
    changed = [u for i, u in enumerate(old) if chg[i] and not exp[i] and not pend[i]]
    sel.hide_expunged = hide
    if use_set:
        # maildir-style full rescan: everything that still exists
        gone = set(i for i in range(n) if exp[i] or pend[i])
        remaining = [mk(u, [g['Seen']] if chg[i] else ()) for i, u in enumerate(old) if i not in gone]
        sel.set_messages(remaining + [mk(u) for u in new])
    else:
        sel.add_updates([mk(u, [g['Seen']]) for u in changed] + [mk(u) for u in new], expunged)
    sel2, resp = sel.fork(_Cmd(uidcmd))
    saw_exists = False
    for r in resp:
        if isinstance(r, g['ExpungeResponse']):
            if hide:
                return 'EXPUNGE sent while hide_expunged'
            if saw_exists:
                return 'EXPUNGE after EXISTS'
            s = r.seq
            if not isinstance(s, int):
                return 'symbolic sequence number'
            if not (1 <= s <= len(client)):
                return 'EXPUNGE %d outside 1..%d' % (s, len(client))
            del client[s - 1]
        elif isinstance(r, g['ExistsResponse']):
            saw_exists = True
            if r.num < len(client):
                return 'EXISTS shrinks'
            client = client + [None] * (r.num - len(client))
        elif isinstance(r, g['FetchResponse']):
            if not (1 <= r.seq <= len(client)):
                return 'FETCH seq outside view'
            # the message it labels: flags changed => it must be the uid at that position
            c = client[r.seq - 1]
            srv = sel2.messages._sorted[r.seq - 1]
            if c is not None:
                check(c == srv)
    srv = sel2.messages._sorted
    if len(srv) != len(client):
        return 'count differs: client %d server %d' % (len(client), len(srv))
    for c, s in zip(client, srv):
        if c is not None:
            check(c == s)
    # newly announced messages are the trailing ones, in order
    tail = [s for c, s in zip(client, srv) if c is None]
    if len(tail) > len(new):
        return 'more new positions than new messages'
    # representation invariant after the step
    m = sel2.messages
    if len(m._uids) != len(m._sorted):
        return 'invariant: |_uids| != |_sorted|'
    for a, b in zip(m._sorted, m._sorted[1:]):
        check(a < b)
    for i, u in enumerate(m._sorted, 1):
        if u not in m._uids:
            return 'invariant: _sorted member not in _uids'
        if m._seqs_cache.get(u) != i:
            return 'invariant: _seqs_cache[%r] != %d' % (u, i)
    if sel2._prev is None or len(sel2._prev.uids) != len(m._uids):
        return 'invariant: _prev not a frozen copy'
    # get_uids(1:*) answers with exactly the view
    return None


def _harness(n, k, use_set=False):
    def fn(eng):
        from pysymex import SymUid, B, AND, Outcome
        kk = eng.choose('new', k + 1)          # 0..k messages arrive in the same update
        uids = [eng.fresh_int('u%d' % i, 1, cls=SymUid) for i in range(n + kk)]
        for a, b in zip(uids, uids[1:]):
            eng.add(a.t < b.t)
        pend = [eng.flip('pend%d' % i) for i in range(n)]
        hide = eng.flip('hide')
        exp = [(not pend[i]) and eng.flip('exp%d' % i) for i in range(n)]
        chg = [(not pend[i]) and (not exp[i]) and eng.flip('chg%d' % i) for i in range(n)]
        uidcmd = eng.flip('uidcmd')
        obligations = []
        wit = lambda m: {'n': n, 'k': kk, 'uids': [u.eval(m) for u in uids],  # noqa: E731
                         'pend': pend, 'hide': hide, 'exp': exp, 'chg': chg,
                         'uidcmd': uidcmd, 'use_set': use_set}
        err = _scenario(n, kk, uids, pend, hide, exp, chg, uidcmd, use_set, _g,
                        lambda c: obligations.append(B(c)))
        if err is not None:
            return Outcome(False, witness=wit, info=err)
        return Outcome(AND(*obligations), witness=wit)
    return fn


def harnesses(tier):
    from pysymex.runner import Harness
    hs = []
    bounds = [(0, 1), (1, 1), (2, 1), (3, 1), (2, 2)] if tier == 'quick' else \
        [(0, 2), (1, 2), (2, 2), (3, 2), (4, 1), (4, 2)]
    for n, k in bounds:
        hs.append(Harness('fork_step[n=%d,k<=%d]' % (n, k), _harness(n, k),
                          {'view': n, 'new': k, 'uids': 'unbounded, ordered'}, replay='step',
                          task_budget=60))
    sb = [(2, 1), (3, 1)] if tier == 'quick' else [(3, 2), (4, 1)]
    for n, k in sb:
        hs.append(Harness('set_messages_step[n=%d,k=%d]' % (n, k), _harness(n, k, True),
                          {'view': n, 'new': k, 'path': 'set_messages (full rescan)'},
                          replay='step', task_budget=60))
    # session-level histories through ConnectionState.do_command on the dict backend (two sessions):
    # shadow clients vs. server views after every command, and "the server applies a sequence-number
    # command to the message the client means" (shares the driver of C02, convergence oracle off)
    from checks import c02
    hist = [(2, 2, c02.OPS), (3, 2, ['delete', 'move_seq', 'store_seen', 'fetch_body']),
            (1, 3, ['delete', 'noop', 'store_seen', 'fetch_body'])] if tier == 'quick' else \
        [(2, 3, c02.OPS), (3, 3, ['delete', 'move_seq', 'store_seen', 'fetch_body', 'append']),
         (1, 4, ['delete', 'noop', 'store_seen', 'fetch_body'])]
    for m, d, ops in hist:
        hs.append(Harness('session_history[m=%d,d=%d,ops=%d]' % (m, d, len(ops)), c02._harness(m, d, ops, 'c01'),
                          {'initial_messages': m, 'history_depth': d, 'ops': ops, 'sessions': 2},
                          replay='history', task_budget=40))
    # a client idling on the real connection loop while another session changes the mailbox (changes pending
    # at IDLE start, bursts while idling, DONE or a wrong line): shadow client built from the bytes received
    from checks import _idle
    for mm, npre, bursts in ([(2, 1, (1,)), (2, 0, (1, 1))] if tier == 'quick' else
                             [(2, 1, (1,)), (2, 0, (1, 1)), (3, 2, (1,)), (2, 1, (1, 1)), (3, 1, (2,))]):
        hs.append(Harness('idle_stream[m=%d,pending=%d,bursts=%s]' % (mm, npre, '+'.join(map(str, bursts))),
                          _idle.harness(_ig, mm, npre, bursts),
                          {'initial_messages': mm, 'pending_at_idle_start': npre, 'bursts_while_idling': list(bursts),
                           'ops': _idle.B_OPS, 'sequence_numbers': 'symbolic'}, replay='idle', task_budget=40))
    return hs


def replay(harness, w):
    if harness == 'idle':
        from checks import _idle
        bad = _idle.replay(w)
        return {'violates': bool(bad), 'detail': bad[:3], 'category': 'idle: ' + (bad[0] if bad else '')[:60]}
    if harness == 'history':
        from checks import c02
        return c02.replay(harness, w)
    from datetime import datetime
    from pymap.selected import SelectedMailbox
    from pymap.flags import PermanentFlags, SessionFlags
    from pymap.message import BaseMessage
    from pymap.parsing.specials import ObjectId
    from pymap.parsing.specials.flag import Seen, Deleted, Recent
    from pymap.parsing.response.specials import ExpungeResponse, ExistsResponse, \
        FetchResponse, RecentResponse

    class Msg(BaseMessage):
        async def load_content(self, requirement):
            raise NotImplementedError
    g = dict(locals())
    bad = []

    def check(c):
        if not c:
            bad.append('obligation failed')
    err = _scenario(w['n'], w['k'], w['uids'], w['pend'], w['hide'], w['exp'], w['chg'],
                    w['uidcmd'], w['use_set'], g, check)
    if err:
        bad.append(err)
    return {'violates': bool(bad), 'detail': bad[:3]}


def classify(harness, w, res):
    return None

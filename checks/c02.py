"""C02 - cross-session convergence: no lost, phantom or stuck updates.

Bounded histories through the real API: two sessions with INBOX selected on
the real dict backend (real ConnectionState.do_command -> BaseSession ->
MailboxData/_ModSequenceMapping -> SelectedMailbox), starting from m messages
both have seen; d operations chosen by the solver-driven explorer, operands
(sequence numbers, UID base) symbolic; then both sessions issue NOOP with
nothing in flight and must hold exactly the stored UIDs and flags.
"""
from __future__ import annotations

ID = 'C02'
LEVEL = 'model_checking'
TIME_BUDGET = {'quick': 900, 'thorough': 7200}
EXPLANATION = (
    'Bounded model checking of command histories on the real dict backend: the '
    'operation at each step is a fork over the op alphabet x session, sequence '
    'numbers are z3 integers (any value 1..n+1, including out of range), the '
    'UID base is an unbounded z3 integer; after the history both sessions '
    'NOOP and a proof query states view == store (UIDs position by position, '
    'cached permanent flags). Includes commands that address messages another '
    'session has already expunged.')
FUNCTIONS = [
    'pymap.backend.dict.mailbox:_ModSequenceMapping._set', 'pymap.backend.dict.mailbox:_ModSequenceMapping.update',
    'pymap.backend.dict.mailbox:_ModSequenceMapping.expunge', 'pymap.backend.dict.mailbox:_ModSequenceMapping.find_updated',
    'pymap.backend.dict.mailbox:_ModSequenceMapping._remove_prev',
    'pymap.backend.dict.mailbox:MailboxData.update_selected', 'pymap.backend.dict.mailbox:MailboxData.append',
    'pymap.backend.dict.mailbox:MailboxData.copy', 'pymap.backend.dict.mailbox:MailboxData.update',
    'pymap.backend.dict.mailbox:MailboxData.get', 'pymap.backend.dict.mailbox:MailboxData.delete',
    'pymap.backend.session:BaseSession.update_flags', 'pymap.backend.session:BaseSession.fetch_messages',
    'pymap.backend.session:BaseSession.expunge_mailbox', 'pymap.backend.session:BaseSession.check_mailbox',
    'pymap.backend.session:BaseSession.copy_messages', 'pymap.backend.session:BaseSession.append_messages',
    'pymap.selected:SelectedMailbox.add_updates', 'pymap.selected:SelectedMailbox.fork',
    'pymap.imap.state:ConnectionState.do_command', 'pymap.imap.state:ConnectionState.do_store',
    'pymap.imap.state:ConnectionState.do_fetch', 'pymap.imap.state:ConnectionState.do_noop',
]
ASSUMPTIONS = [
    'history length <= d, initial mailbox size m, two sessions (bounds in the harness list)',
    'quiescent points only: every command runs to completion before the next starts '
    '(interleavings inside a command are C14/C16/C20 territory)',
]
STUBS = ['coroutines are driven with send(None); uncontended asyncio locks never suspend',
         'sessions are attached to ConnectionState directly (login is C09)']
OUTSIDE = ['maildir rescans', 'histories longer than the bound', 'more than two sessions']

OPS = ['append', 'store_seen', 'delete', 'noop', 'fetch_body', 'copy_self', 'uidstore_flagged', 'move_seq', 'store_unseen',
       'store_seen_silent']
_g: dict = {}


def setup() -> None:
    from checks import _sim
    _g.update(_sim.bindings())
    _g['_sim'] = _sim


def program(g, sim, base, m, script, check, oracle='both'):
    """script: list of (opname, session, arg).  Returns error string|None."""
    w = sim.World(g, 2, base_uid=base, check=check)
    for _ in range(m):
        w.append(0)
    w.select(0)
    w.select(1)
    for t in (0, 1):
        w.fetch(t, [(1, '*')], [b'FLAGS'])      # the clients learn the flags (what they believe from now on)
    Seen, Deleted, Flagged = g['Seen'], g['Deleted'], g['Flagged']
    for op, s, a in script:
        # what the client means by sequence number a right now
        target = None
        known = False
        if a is not None and op in ('store_seen', 'store_unseen', 'fetch_body', 'move_seq', 'delete', 'store_seen_silent'):
            ents = w.clients[s].entries
            for i, e in enumerate(ents, 1):
                if a == i:
                    target = e['uid']
                    known = target is not None
                    break
            else:
                known = True      # out of range: the client addresses nothing
        before = w.dump('INBOX')
        if op == 'append':
            w.append(s)
        elif op == 'store_seen':
            w.store(s, [a], [Seen], 'ADD')
        elif op == 'store_unseen':
            w.store(s, [a], [Seen], 'DELETE')
        elif op == 'store_seen_silent':
            w.store(s, [a], [Seen], 'ADD', silent=True)
        elif op == 'delete':
            w.store(s, [a], [Deleted], 'ADD', silent=True)
            w.expunge(s)
        elif op == 'noop':
            w.noop(s)
        elif op == 'fetch_body':
            w.fetch(s, [a], [b'BODY[]'])
        elif op == 'copy_self':
            w.copy(s, [a], 'INBOX')
        elif op == 'uidstore_flagged':
            w.store(s, [(a, '*')], [Flagged], 'REPLACE', uid=True)
        elif op == 'move_seq':
            w.copy(s, [a], 'Other', move=True)
        after = w.dump('INBOX')
        if known and op in ('store_seen', 'fetch_body', 'store_seen_silent'):
            # only the message the client addressed may have gained \Seen
            for uid, flags, _ in after:
                was = None
                for u0, f0, _ in before:
                    if bool(u0 == uid):
                        was = f0
                if was is not None and Seen in flags and Seen not in was:
                    if target is None:
                        return 'C01-type: %s %s changed a message although the client addressed none' % (op, s)
                    check(uid == target, 'the server applied %s to a different message than the client addressed' % op)
        if known and op == 'move_seq':
            for u0, _, _ in before:
                if not any(bool(u0 == u1) for u1, _, _ in after):
                    if target is None:
                        return 'C01-type: MOVE removed a message although the client addressed none'
                    check(u0 == target, 'MOVE took a different message than the client addressed')
        for t in (0, 1):
            err = w.check_client_matches_server(t, 'after %s by %d' % (op, s))
            if err:
                return 'C01-type: ' + err
        w.learn_uids(s)
    # quiescent: nothing in flight; NOOP in both sessions
    for t in (0, 1):
        w.noop(t)
    for t in (0, 1):
        err = w.check_converged(t) if oracle == 'both' else None
        if err:
            return 'session %d: %s' % (t, err)
        err = w.check_client_matches_server(t, 'at the end')
        if err:
            return 'session %d client: %s' % (t, err)
    return None


REPLACE_HOW = ['rename_inbox', 'delete_create', 'rename_create']
REPLACE_OPS = ['noop', 'check', 'fetch_flags', 'store_seen', 'uidstore_flagged', 'expunge', 'fetch_body', 'copy']


def replaced(g, sim, base, how, op, seq, check):
    """session 0 has a mailbox selected; session 1 takes it away and a *new* mailbox appears under the same name
    (RENAME INBOX leaves a new empty INBOX; DELETE + CREATE; RENAME away + CREATE), into which a message is delivered.
    Then session 0 issues one command.  It must not go on as if nothing had happened: either it is told (BYE / NO), or
    what its client believes afterwards is the mailbox that now has that name; and a command addressing a message of
    the old mailbox must not touch a message of the new one.  returns error|None"""
    name = 'INBOX' if how == 'rename_inbox' else 'Other'
    w = sim.World(g, 2, base_uid=base, check=check)
    for _ in range(2):
        w.append(1, name)
    w.select(0, name)
    w.fetch(0, [(1, '*')], [b'FLAGS'])
    M, EO = g['Mailbox'], g['ExtensionOptions']
    if how == 'rename_inbox':
        r = w.run(1, g['RenameCommand'](w.tag(), M('INBOX'), M('Away'), EO.empty()))
    elif how == 'delete_create':
        r = w.run(1, g['DeleteCommand'](w.tag(), M('Other')))
        if r[0] == 'OK':
            r = w.run(1, g['CreateCommand'](w.tag(), M('Other'), EO.empty()))
    else:
        r = w.run(1, g['RenameCommand'](w.tag(), M('Other'), M('Away'), EO.empty()))
        if r[0] == 'OK':
            r = w.run(1, g['CreateCommand'](w.tag(), M('Other'), EO.empty()))
    if r[0] != 'OK':
        return None            # the backend refuses: nothing was replaced
    w.append(1, name)          # a message of the new mailbox
    before = w.dump(name)
    Seen, Flagged, Deleted = g['Seen'], g['Flagged'], g['Deleted']
    first_uid = w.clients[0].entries[0]['uid'] if w.clients[0].entries else None
    if op == 'noop':
        r = w.noop(0)
    elif op == 'check':
        r = w.check_cmd(0)
    elif op == 'fetch_flags':
        r = w.fetch(0, [seq], [b'FLAGS'])
    elif op == 'store_seen':
        r = w.store(0, [seq], [Seen, Deleted], 'ADD')
    elif op == 'uidstore_flagged':
        r = w.store(0, [(first_uid, '*')] if first_uid is not None else [1], [Flagged], 'ADD', uid=True)
    elif op == 'expunge':
        r = w.expunge(0)
    elif op == 'fetch_body':
        r = w.fetch(0, [seq], [b'BODY[]'])
    else:
        r = w.copy(0, [seq], 'Away' if how != 'delete_create' else 'INBOX')
    after = w.dump(name)
    if r[0] in ('BYE', 'NO', 'BAD'):
        if [(u, f) for u, f, _ in after] != [(u, f) for u, f, _ in before]:
            return '%s after %s was refused (%s) but changed the new mailbox' % (op, how, r[0])
        return None
    # answered OK: the client was never told about the new mailbox's message, so the command cannot have meant it
    told = len(w.clients[0].entries)
    if [(u, f) for u, f, _ in after] != [(u, f) for u, f, _ in before]:
        return '%s after %s answered OK and changed a message of the new mailbox the client had never been told about' % (op, how)
    err = w.check_converged(0, name)
    if err:
        return '%s after %s answered OK, but the session goes on with the old mailbox (%d messages): %s' % (op, how, told, err)
    return None


def _h_replaced():
    def fn(eng):
        from pysymex import SymUid, B, AND, Outcome
        base = eng.fresh_int('base', 0, cls=SymUid)
        how = REPLACE_HOW[eng.choose('how', len(REPLACE_HOW))]
        op = REPLACE_OPS[eng.choose('op', len(REPLACE_OPS))]
        seq = eng.fresh_int('seq', 1, 3, cls=SymUid)
        obligations = []
        wit = lambda mdl: {'base': base.eval(mdl), 'how': how, 'op': op, 'seq': seq.eval(mdl)}  # noqa: E731
        err = replaced(_g, _g['_sim'], base, how, op, seq, lambda c, msg='': obligations.append(B(c)))
        if err is not None:
            return Outcome(False, witness=wit, info=err)
        return Outcome(AND(*obligations), witness=wit)
    return fn


def _harness(m, d, ops, oracle='both'):
    def fn(eng):
        from pysymex import SymUid, B, AND, Outcome
        base = eng.fresh_int('base', 0, cls=SymUid)
        script = []
        for t in range(d):
            o = eng.choose('op%d' % t, len(ops))
            s = eng.choose('s%d' % t, 2)
            op = ops[o]
            a = None
            if op in ('store_seen', 'store_unseen', 'delete', 'fetch_body', 'copy_self', 'move_seq', 'store_seen_silent'):
                a = eng.fresh_int('a%d' % t, 1, m + d + 1, cls=SymUid)
            elif op == 'uidstore_flagged':
                off = eng.fresh_int('a%d' % t, 0, m + d + 1)
                a = SymUid((base + off).t)
            script.append((op, s, a))
        obligations = []

        def wit(mdl):
            sc = []
            for op, s, a in script:
                sc.append([op, s, None if a is None else a.eval(mdl)])
            return {'base': base.eval(mdl), 'm': m, 'script': sc, 'oracle': oracle}
        err = program(_g, _g['_sim'], base, m, script, lambda c, msg='': obligations.append(B(c)), oracle)
        if err is not None:
            return Outcome(False, witness=wit, info=err)
        return Outcome(AND(*obligations), witness=wit)
    return fn


def harnesses(tier):
    from pysymex.runner import Harness
    if tier == 'quick':
        cfgs = [(1, 3, ['store_seen', 'store_unseen', 'delete', 'noop', 'append']),
                (2, 2, OPS), (3, 2, ['delete', 'move_seq', 'store_seen'])]
    else:
        cfgs = [(1, 4, ['store_seen', 'store_unseen', 'delete', 'noop', 'append', 'fetch_body']),
                (2, 3, OPS), (2, 4, ['store_seen', 'store_unseen', 'delete', 'noop', 'append'])]
    hs = [Harness('history[m=%d,d=%d,ops=%d]' % (m, d, len(ops)), _harness(m, d, ops),
                  {'initial_messages': m, 'history_depth': d, 'ops': ops, 'sessions': 2,
                   'sequence_numbers': '1..%d symbolic' % (m + d + 1), 'uid_base': 'unbounded'},
                  replay='history', task_budget=40) for m, d, ops in cfgs]
    hs.append(Harness('mailbox_replaced', _h_replaced(),
                      {'how': REPLACE_HOW, 'then': REPLACE_OPS, 'sequence_number': 'symbolic 1..3', 'uid_base': 'unbounded'},
                      replay='replaced', task_budget=40))
    return hs


def replay(harness, w):
    from checks import _sim
    g = _sim.bindings()
    bad = []

    def check(c, msg=''):
        if not c:
            bad.append(msg or 'obligation failed')
    if harness == 'replaced':
        err = replaced(g, _sim, w['base'], w['how'], w['op'], w['seq'], check)
    else:
        err = program(g, _sim, w['base'], w['m'], [tuple(x) for x in w['script']], check, w.get('oracle', 'both'))
    if err:
        bad.append(err)
    return {'violates': bool(bad), 'detail': bad[:3], 'category': (bad[0] if bad else '')[:70]}


def classify(harness, w, res):
    return None

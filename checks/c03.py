"""C03 - message bytes are stored and returned verbatim.

Kernel executed symbolically (real code from /repo): the MIME line index
(MessageContent._find_lines/_split_lines, get_raw), MessageHeader/MessageBody/
MessageContent construction and raw views, BaseLoadedMessage accessors used by
FETCH BODY[]/RFC822/BODY[HEADER]/BODY[TEXT]/RFC822.SIZE, the partial <o.n>
slice (DynamicLoadedFetchValue._get_partial), the literal prefix
(LiteralString), dict Message.copy, and MessageBody._find_parts for multipart.
"""
from __future__ import annotations

ID = 'C03'
LEVEL = 'model_checking'
TIME_BUDGET = {'quick': 900, 'thorough': 5400}
EXPLANATION = (
    'Bounded symbolic execution of the real MIME/fetch code: every byte of the '
    'message is a z3 integer in 0..255 (length concrete per run, all lengths '
    '0..N), the partial offsets are unbounded z3 integers >= 0; each feasible '
    'path ends in one proof query "path condition AND NOT fidelity"; unsat on '
    'every path of the exhausted tree = the property holds for all 256^n byte '
    'strings of each length n <= N.')
FUNCTIONS = [
    'pymap.mime:MessageContent._find_lines', 'pymap.mime:MessageContent._split_lines',
    'pymap.mime:MessageContent._parse', 'pymap.mime:MessageContent.__init__',
    'pymap.mime._util:get_raw', 'pymap.mime._util:find_any',
    'pymap.mime:MessageHeader._find_folds', 'pymap.mime:MessageHeader._find_folded',
    'pymap.mime:MessageHeader.__init__', 'pymap.mime:MessageBody._parse',
    'pymap.mime:MessageBody._find_parts', 'pymap.mime:MessageBody._parse_multipart',
    'pymap.mime:MessageBody.__init__',
    'pymap.message:BaseLoadedMessage.get_body', 'pymap.message:BaseLoadedMessage.get_message_text',
    'pymap.message:BaseLoadedMessage.get_message_headers', 'pymap.message:BaseLoadedMessage.get_size',
    'pymap.message:BaseLoadedMessage._get_subpart',
    'pymap.fetch:DynamicLoadedFetchValue._get_partial', 'pymap.fetch:DynamicLoadedFetchValue._get_data',
    'pymap.parsing.primitives:LiteralString._prefix', 'pymap.parsing.primitives:LiteralString.write',
    'pymap.backend.dict.mailbox:Message.copy', 'pymap.backend.dict.mailbox:MailboxData.append',
    'pymap.backend.dict.mailbox:MailboxData.copy', 'pymap.backend.dict.mailbox:_ContentCache.add',
    'pymap.bytes:HashStream.digest',
]
ASSUMPTIONS = [
    'message length <= the stated bound (longer messages, in particular 64 KiB, are outside the claim)',
    'header *value* parsing (email.headerregistry) is not entered: for all-symbolic data below 14 bytes '
    'no header can be named content-type (the name comparison is decided infeasible on every path); '
    'the multipart harness gives the Content-Type header concretely',
    'base64 pair in MessageHeader._to_str/_to_bytes is an exact opaque inverse pair',
]
STUBS = ['zlib.adler32: exact arithmetic model over symbolic bytes',
         'base64.b64encode/b64decode on symbolic names: opaque token with exact inverse',
         'io.BytesIO: chunk list (Writeable.tobytes)']
OUTSIDE = ['maildir MaildirMessage re-serialisation (stdlib email)',
           'content-transfer decoding for BINARY[]', 'lengths above the bound',
           'APPEND command parsing and content hashing (zlib.adler32) / thread keys']

_g: dict = {}


def setup() -> None:
    from pysymex import symbytes
    symbytes.SymBytes.HASH_OK = True  # header_map keys: all symbolic (SymDict scan)
    from pymap.mime import MessageContent, MessageBody
    from pymap.mime._util import get_raw
    from pymap.message import BaseLoadedMessage
    from pymap.fetch import DynamicLoadedFetchValue
    from pymap.parsing.primitives import LiteralString
    from pymap.parsing.specials.fetchattr import FetchPartial, FetchRequirement
    from pymap.backend.dict.mailbox import Message, MailboxSet
    from pymap.parsing.message import AppendMessage
    _g.update(locals())


# ---------------------------------------------------------------- harnesses
def _h_lines(n):
    def fn(eng):
        from pysymex import fresh_bytes, B, Outcome
        MC, get_raw = _g['MessageContent'], _g['get_raw']
        data = fresh_bytes(eng, 'b', n, 'bytes')
        view = data.as_kind('memoryview')
        lines = MC._find_lines(data)
        h, b = MC._split_lines(data, lines)
        whole = get_raw(view, h, b)
        hh = get_raw(view, h)
        bb = get_raw(view, b)
        prop = B(whole == data) & B((hh + bb) == data)
        # the index itself: contiguous cover of [0, n)
        cover = True
        pos = 0
        for (s, e, nx) in lines:
            cover = cover and s == pos and s <= e <= nx
            pos = nx
        cover = cover and pos == n
        return Outcome(prop & B(cover), witness=lambda m: {'data': data.eval(m).hex()})
    return fn


def _h_parse(n, partial=True):
    def fn(eng):
        import datetime
        from pysymex import fresh_bytes, B, AND, Outcome
        MC = _g['MessageContent']
        data = fresh_bytes(eng, 'b', n, 'bytes')
        o = eng.fresh_int('o', 0)
        ln = eng.fresh_int('n', 0)
        content = MC.parse(data)
        msg = _g['Message'](7, datetime.datetime(2020, 1, 1), [], content=content)
        msg2 = _g['Message'].copy(msg, uid=9)
        loaded = _g['BaseLoadedMessage'](msg2, _g['FetchRequirement'].CONTENT, msg2._content)
        body_all = loaded.get_body(None)
        hdr = loaded.get_message_headers(None)
        txt = loaded.get_message_text(None)
        props = [
            B(bytes_(content) == data), len(content) == n,
            B(bytes_(content.header) + bytes_(content.body) == data),
            B(bytes_(body_all) == data), loaded.get_size() == n,
            B(bytes_(hdr) + bytes_(txt) == data),
            len(content.header) + len(content.body) == n,
        ]
        if not partial:
            return Outcome(AND(*props), witness=lambda m: {'data': data.eval(m).hex()})
        # partial <o.n> on BODY[]
        part = _g['FetchPartial'](o, ln)
        w = _g['DynamicLoadedFetchValue']._get_partial(body_all, part)
        got = bytes_(w)
        lit = _g['LiteralString'](w)
        # expected b[o:o+n] -- computed on the symbolic input directly
        exp = data[o:o + ln]
        props.append(B(got == exp))
        props.append(lit.length == len(exp))
        return Outcome(AND(*props), witness=lambda m: {
            'data': data.eval(m).hex(), 'o': o.eval(m), 'n': ln.eval(m)})
    return fn


def bytes_(x):
    r = x.__bytes__()
    return r


def _h_multipart(shape):
    """shape: list of parts; each part = list of body-line lengths.  Concrete
    Content-Type header and boundary lines, symbolic part content."""
    def fn(eng):
        from pysymex import fresh_bytes, SymBytes, B, AND, Outcome
        MC = _g['MessageContent']
        items = list(b'Content-Type: multipart/mixed; boundary=Q\r\n\r\n')
        regions = []
        k = 0
        for part in shape:
            items += list(b'--Q\r\n')
            start = len(items)
            for ln in part:
                sb = fresh_bytes(eng, 'p%d_' % k, ln)
                k += 1
                items += sb.items + [13, 10]
            regions.append((start, len(items)))
        items += list(b'--Q--\r\n')
        data = SymBytes(items, 'bytes')
        syms = [x for x in items if not isinstance(x, int)]
        content = MC.parse(data)
        props = [B(bytes_(content) == data), B(bytes_(content.header) + bytes_(content.body) == data)]
        nested = content.body.nested
        # every nested part's raw view is a contiguous range of the parent
        # body and the parts do not overlap; header+body of each part = part
        for p in nested:
            raw = bytes_(p)
            props.append(B(bytes_(p.header) + bytes_(p.body) == raw))
            props.append(len(p) == len(raw))
        # when no symbolic line collides with a delimiter, the parts are
        # exactly the regions between delimiter lines
        info = 'parts=%d' % len(nested)
        if len(nested) == len(regions):
            for p, (s, e) in zip(nested, regions):
                props.append(B(bytes_(p) == data[s:e]))
            info += ' aligned'
        return Outcome(AND(*props), info=info, witness=lambda m: {
            'data': data.eval(m).hex()})
    return fn


def part_sizes(g, content, bytes_of):
    """[(what, announced octets, octets BODY[part] returns, header+body octets of that part)] for the parts of a
    message: part 1 of a non-multipart message, parts 1..k of a multipart one"""
    import datetime
    msg = g['Message'](7, datetime.datetime(2020, 1, 1), [], content=content)
    loaded = g['BaseLoadedMessage'](msg, g['FetchRequirement'].CONTENT, msg._content)
    bs = loaded.get_body_structure()
    out = []
    subs = getattr(bs, 'parts', None)
    if subs is None:
        subs, whole = [bs], [content]
    else:
        whole = list(content.body.nested)
    for i, (sub, part) in enumerate(zip(subs, whole), 1):
        size = getattr(sub, 'size', None)
        if size is None:
            continue
        got = bytes_of(loaded.get_body([i]))
        out.append(('part %d' % i, size, len(got), len(part)))
    return out


def _h_part_sizes(n):
    """the octet count BODYSTRUCTURE announces for a part = the length of what BODY[part] returns"""
    def fn(eng):
        from pysymex import fresh_bytes, B, AND, Outcome
        data = fresh_bytes(eng, 'b', n, 'bytes')
        content = _g['MessageContent'].parse(data)
        props = [B(size == got) for _, size, got, _ in part_sizes(_g, content, bytes_)]
        return Outcome(AND(*props), witness=lambda m: {'data': data.eval(m).hex()})
    return fn


def _h_part_sizes_multipart(shape):
    def fn(eng):
        from pysymex import fresh_bytes, SymBytes, B, AND, Outcome
        items = list(b'Content-Type: multipart/mixed; boundary=Q\r\n\r\n')
        k = 0
        for part in shape:
            items += list(b'--Q\r\n')
            for ln in part:
                sb = fresh_bytes(eng, 'p%d_' % k, ln)
                k += 1
                items += sb.items + [13, 10]
        items += list(b'--Q--\r\n')
        data = SymBytes(items, 'bytes')
        content = _g['MessageContent'].parse(data)
        props = [B(size == got) for _, size, got, _ in part_sizes(_g, content, bytes_)]
        return Outcome(AND(*props), witness=lambda m: {'data': data.eval(m).hex()})
    return fn


def _h_append_two(n1, n2):
    """APPEND two messages to the real dict mailbox (content cache keyed by
    a checksum, thread cache), then each message still returns its own bytes"""
    def fn(eng):
        from pysymex import fresh_bytes, B, AND, Outcome
        from checks import _sim
        b1 = fresh_bytes(eng, 'x', n1)
        b2 = fresh_bytes(eng, 'y', n2)
        for c in b1.items + b2.items:
            # one MIME shape (no whitespace, no colon): this harness is about which stored object
            # a message gets, not about line splitting (covered above for all bytes)
            eng.add((c.t >= 0x21) & (c.t <= 0x7e) & (c.t != 0x3a))
        ms = _g['MailboxSet']()
        mbx = ms._inbox
        AM = _g['AppendMessage']
        m1 = _sim.run_coro(mbx.append(AM(b1, None, frozenset())))
        m2 = _sim.run_coro(mbx.append(AM(b2, None, frozenset())))
        other = _sim.run_coro(ms.add_mailbox('O'))
        dest = _sim.run_coro(ms.get_mailbox('O'))
        cu = _sim.run_coro(mbx.copy(m2.uid, dest))
        mc = dest._messages[cu]
        props = []
        for m, b in ((m1, b1), (m2, b2), (mc, b2)):
            loaded = _sim.run_coro(m.load_content(_g['FetchRequirement'].CONTENT))
            props.append(B(bytes_(loaded.get_body(None)) == b))
            props.append(loaded.get_size() == len(b))
        return Outcome(AND(*props), witness=lambda mdl: {
            'b1': b1.eval(mdl).hex(), 'b2': b2.eval(mdl).hex()})
    return fn


def harnesses(tier):
    from pysymex.runner import Harness
    hs = []
    nl, np_, npart = (9, 8, 4) if tier == 'quick' else (12, 11, 6)
    for n in range(0, nl + 1):
        hs.append(Harness('lines_kernel[len=%d]' % n, _h_lines(n), {'len': n}, replay='lines_kernel'))
    for n in range(0, np_ + 1):
        hs.append(Harness('parse_fetch[len=%d]' % n, _h_parse(n, False), {'len': n},
                          replay='parse_fetch'))
    for n in range(0, npart + 1):
        hs.append(Harness('parse_fetch_partial[len=%d]' % n, _h_parse(n),
                          {'len': n, 'partial': 'o,n unbounded integers >= 0'},
                          replay='parse_fetch'))
    shapes = [[[1]], [[2], [1]], [[1, 1]]] if tier == 'quick' else \
        [[[1]], [[2], [1]], [[1, 1]], [[2, 2], [2]], [[1], [1], [1]], [[3], [3]]]
    for n1, n2 in ([(3, 3), (4, 4)] if tier == 'quick' else [(3, 3), (4, 4), (5, 5), (3, 6), (6, 6)]):
        hs.append(Harness('append_two[len=%d,%d]' % (n1, n2), _h_append_two(n1, n2), {'len1': n1, 'len2': n2, 'bytes': '0x21..0x7e except colon'},
                          replay='append_two', task_budget=60))
    for sh in shapes:
        hs.append(Harness('multipart%s' % sh, _h_multipart(sh), {'parts': sh},
                          replay='multipart'))
    # maildir: COPY / MOVE through the real maildir MailboxData with the Maildir object store stubbed (its
    # get_message_metadata returns a message without content, as pymap's own method documents)
    from checks import c04_maildir
    if '_mg' not in _g:
        _g['_mg'] = c04_maildir.bindings()
    hs.append(Harness('maildir_copy_content', c04_maildir.harness(_g['_mg'], 1, 1, 30, content=True),
                      {'ops': c04_maildir.OPS, 'oracle': 'the message in the destination holds the source content'},
                      replay='mdcontent', task_budget=60))
    for n in range(0, (5 if tier == 'quick' else 7) + 1):
        hs.append(Harness('part_sizes[len=%d]' % n, _h_part_sizes(n), {'len': n}, replay='part_sizes'))
    for sh in shapes[:2] if tier == 'quick' else shapes[:4]:
        hs.append(Harness('part_sizes_multipart%s' % sh, _h_part_sizes_multipart(sh), {'parts': sh}, replay='part_sizes'))
    return hs


# ---------------------------------------------------------------- replay
def _observe(data: bytes, o=None, n=None):
    import datetime
    from pymap.mime import MessageContent
    from pymap.message import BaseLoadedMessage
    from pymap.fetch import DynamicLoadedFetchValue
    from pymap.parsing.primitives import LiteralString
    from pymap.parsing.specials.fetchattr import FetchPartial, FetchRequirement
    from pymap.backend.dict.mailbox import Message
    bad = []
    content = MessageContent.parse(data)
    msg = Message.copy(Message(7, datetime.datetime(2020, 1, 1), [], content=content), uid=9)
    loaded = BaseLoadedMessage(msg, FetchRequirement.CONTENT, msg._content)
    if bytes(content) != data:
        bad.append('BODY[] %r != %r' % (bytes(content), data))
    if len(content) != len(data):
        bad.append('RFC822.SIZE %d != %d' % (len(content), len(data)))
    if bytes(content.header) + bytes(content.body) != data:
        bad.append('HEADER+TEXT %r + %r' % (bytes(content.header), bytes(content.body)))
    if bytes(loaded.get_body(None)) != data:
        bad.append('get_body')
    if loaded.get_size() != len(data):
        bad.append('get_size')
    if bytes(loaded.get_message_headers(None)) + bytes(loaded.get_message_text(None)) != data:
        bad.append('BODY[HEADER]+BODY[TEXT]')
    if o is not None:
        w = DynamicLoadedFetchValue._get_partial(loaded.get_body(None), FetchPartial(o, n))
        if bytes(w) != data[o:o + n]:
            bad.append('partial <%d.%d> %r != %r' % (o, n, bytes(w), data[o:o + n]))
        lit = LiteralString(w)
        out = bytes(lit)
        pre, _, payload = out.partition(b'\r\n')
        if int(pre[1:-1]) != len(payload):
            bad.append('literal prefix')
    return content, bad


def replay(harness, w):
    data = bytes.fromhex(w.get('data', ''))
    from pymap.mime import MessageContent
    from pymap.mime._util import get_raw
    bad = []
    if harness == 'mdcontent':
        from checks import c04_maildir
        bad = c04_maildir.replay(w, content=True)
        return {'violates': bool(bad), 'detail': bad[:3], 'category': 'maildir copy content'}
    if harness == 'part_sizes':
        from pymap.message import BaseLoadedMessage
        from pymap.parsing.specials.fetchattr import FetchRequirement
        from pymap.backend.dict.mailbox import Message
        g = {'Message': Message, 'BaseLoadedMessage': BaseLoadedMessage, 'FetchRequirement': FetchRequirement}
        kinds = set()
        for what, size, got, whole in part_sizes(g, MessageContent.parse(data), bytes):
            if size != got:
                bad.append('%s: BODYSTRUCTURE announces %d octets, BODY[part] returns %d' % (what, size, got))
                kinds.add('counts-header' if size == whole else 'other')
        return {'violates': bool(bad), 'detail': bad[:3], 'kind': 'counts-header' if kinds == {'counts-header'} else 'other',
                'category': 'part size: ' + ','.join(sorted(kinds))}
    if harness.startswith('append_two'):
        from checks import _sim
        from pymap.backend.dict.mailbox import MailboxSet
        from pymap.parsing.message import AppendMessage
        from pymap.parsing.specials.fetchattr import FetchRequirement
        b1, b2 = bytes.fromhex(w['b1']), bytes.fromhex(w['b2'])
        ms = MailboxSet()
        mbx = ms._inbox
        m1 = _sim.run_coro(mbx.append(AppendMessage(b1, None, frozenset())))
        m2 = _sim.run_coro(mbx.append(AppendMessage(b2, None, frozenset())))
        _sim.run_coro(ms.add_mailbox('O'))
        dest = _sim.run_coro(ms.get_mailbox('O'))
        mc = dest._messages[_sim.run_coro(mbx.copy(m2.uid, dest))]
        for m, b in ((m1, b1), (m2, b2), (mc, b2)):
            loaded = _sim.run_coro(m.load_content(FetchRequirement.CONTENT))
            if bytes(loaded.get_body(None)) != b or loaded.get_size() != len(b):
                bad.append('stored %r, BODY[] returns %r' % (b, bytes(loaded.get_body(None))))
        return {'violates': bool(bad), 'detail': bad[:3]}
    if harness.startswith('lines_kernel'):
        view = memoryview(data)
        lines = MessageContent._find_lines(data)
        h, b = MessageContent._split_lines(data, lines)
        if bytes(get_raw(view, h, b)) != data:
            bad.append('whole %r' % bytes(get_raw(view, h, b)))
        if bytes(get_raw(view, h)) + bytes(get_raw(view, b)) != data:
            bad.append('header+body %r + %r' % (bytes(get_raw(view, h)), bytes(get_raw(view, b))))
    elif harness.startswith('parse_fetch'):
        _, bad = _observe(data, w.get('o'), w.get('n'))
    else:
        content, bad = _observe(data)
        for p in content.body.nested:
            if bytes(p.header) + bytes(p.body) != bytes(p):
                bad.append('nested part header+body')
            if bytes(p) not in data:
                bad.append('nested part not a range of the message')
    return {'violates': bool(bad), 'detail': bad[:3]}


def classify(harness, w, res):
    # only the recorded behaviour: the announced count is exactly header + body of that part
    if harness == 'part_sizes' and res.get('kind') == 'counts-header':
        return 'C03-bodystructure-counts-header'
    return None

"""C04 - UIDs are strictly increasing, never reused, and truthfully reported.

(a) Histories of APPEND / expunge-highest / COPY / MOVE / RENAME / STATUS on
    the real dict backend with a *symbolic* UID base: every UID handed out is
    greater than every UID ever assigned in that mailbox (ghost set kept by the
    harness, including expunged ones), UIDNEXT is greater than every existing
    UID and not greater than the next UID assigned, APPENDUID names the UIDs
    that then exist, UIDVALIDITY and UIDs travel with RENAME.
(a2) Two or three additions to the same mailbox (APPEND / COPY / MOVE as the
    real MailboxData coroutines) really interleaving: the mailbox locks are a
    stub with the real exclusion semantics whose acquisition may be delayed
    by a third party, the scheduler's choices are drawn from the engine, the
    UID counters are symbolic: the UIDs handed out are pairwise distinct,
    greater than every earlier one, and each denotes the message it was
    reported for.
(b) COPYUID text: for symbolic (source, destination) pairs, expanding the two
    sets of the rendered response code in order and zipping gives the pairs.
(c) the dovecot-uidlist text (maildir): header and record lines round-trip.
"""
from __future__ import annotations

ID = 'C04'
LEVEL = 'model_checking'
TIME_BUDGET = {'quick': 900, 'thorough': 5400}
EXPLANATION = (
    'Bounded symbolic execution: the UID counter starts at an unbounded z3 '
    'integer, so "greater than every UID ever assigned" is proved for all '
    'starting points and all histories up to the bound, including '
    'expunge-highest-then-append; COPYUID pairs and uidlist fields are z3 '
    'integers / symbolic strings rendered and re-parsed by the real code.')
FUNCTIONS = [
    'pymap.backend.dict.mailbox:MailboxData.append', 'pymap.backend.dict.mailbox:MailboxData.copy',
    'pymap.backend.dict.mailbox:MailboxData.move', 'pymap.backend.dict.mailbox:MailboxData.delete',
    'pymap.backend.dict.mailbox:MailboxData.snapshot', 'pymap.backend.dict.mailbox:MailboxSet.rename_mailbox',
    'pymap.backend.session:BaseSession.append_messages', 'pymap.backend.session:BaseSession.copy_messages',
    'pymap.backend.session:BaseSession.move_messages', 'pymap.backend.session:BaseSession.get_mailbox',
    'pymap.parsing.response.code:AppendUid.__init__', 'pymap.parsing.response.code:CopyUid.__init__',
    'pymap.parsing.specials.sequenceset:SequenceSet.build', 'pymap.parsing.specials.sequenceset:SequenceSet.__bytes__',
    'pymap.parsing.specials.sequenceset:SequenceSet.parse', 'pymap.imap.state:ConnectionState.do_status',
    'pymap.imap.state:ConnectionState.do_select',
    'pymap.backend.maildir.uidlist:UidList._build_header', 'pymap.backend.maildir.uidlist:UidList._read_header',
    'pymap.backend.maildir.uidlist:UidList._build_line', 'pymap.backend.maildir.uidlist:UidList._read_line',
    'pymap.backend.maildir.mailbox:MailboxData.append', 'pymap.backend.maildir.mailbox:MailboxData.copy',
    'pymap.backend.maildir.mailbox:MailboxData.move', 'pymap.backend.maildir.io:_FileWriteWith.__aenter__',
    'pymap.backend.maildir.io:_FileWriteWith.__aexit__', 'pymap.backend.maildir.io:FileReadable.file_read',
    'pymap.backend.maildir.io:FileWriteable.file_write', 'pymap.backend.maildir.uidlist:UidList.read',
    'pymap.backend.maildir.uidlist:UidList.write', 'pymap.concurrent:FileLock.write_lock', 'pymap.concurrent:FileLock.read_lock',
]
ASSUMPTIONS = [
    'histories of <= d operations from <= 2 initial messages; <= 3 COPYUID pairs with numbers 1..9999',
    'uidlist field values and file names over their documented alphabet (no space / colon in field values, no '
    'leading colon-free ambiguity, no trailing whitespace in file names), <= 3 characters',
    'UIDVALIDITY of a re-created mailbox of the same name is not claimed to differ (time + 16 random bits)',
]
STUBS = ['coroutines driven with send(None)', 'sessions attached directly',
         'maildir_uidlist_writers: in-memory file system (contents written and read by the real code), stub Maildir object '
         'store, symbolic clock below the lock expiration, asyncio.sleep suspends; a third party may hold the lock file and '
         'releases it within the first steps',
         'concurrent_adders: mailbox read-write locks replaced by an exclusion-preserving stub whose acquisition may be '
         'delayed (third-party contention); the lock implementation itself is C20']
OUTSIDE = ['maildir UID assignment across restart and crash points (C15)', 'more than 3 concurrent additions']

_g: dict = {}
OPS = ['append', 'expunge_highest', 'copy_self', 'copy_other', 'move_other', 'rename', 'status', 'append_other',
       'copy2_other', 'move2_other']


def setup() -> None:
    from pysymex import symbytes
    symbytes.SymStr.HASH_OK = True
    from checks import _sim
    _g.update(_sim.bindings())
    _g['_sim'] = _sim
    from pymap.backend.maildir.uidlist import UidList, Record
    from pymap.parsing import Params
    _g.update(locals())


def _record_copyuid(g):
    """ghost: remember the (source, destination) pairs the session layer hands to CopyUid"""
    import sys
    mod = sys.modules['pymap.backend.session']
    real = g['CopyUid']
    rec = {'pairs': None}

    class RecCopyUid(real):
        def __init__(self, validity, uids):
            uids = list(uids)
            rec['pairs'] = uids
            super().__init__(validity, uids)
    mod.CopyUid = RecCopyUid
    return rec, lambda: setattr(mod, 'CopyUid', real)


def program(g, sim, base, m, script, check):
    rec, restore = _record_copyuid(g)
    try:
        return _program(g, sim, base, m, script, check, rec)
    finally:
        restore()


def _program(g, sim, base, m, script, check, rec):
    w = sim.World(g, 1, base_uid=base, check=check)
    Deleted = g['Deleted']
    ghost = {}         # mailbox object id -> list of every UID ever assigned there
    last_next = {}     # mailbox object id -> last UIDNEXT reported

    def mid(name):
        return id(w.mbx(name))

    def assigned(name, uids):
        k = mid(name)
        lst = ghost.setdefault(k, [])
        for u in uids:
            for old in lst:
                check(u > old, 'new UID not greater than an earlier one')
            if k in last_next:
                check(u >= last_next[k], 'UID assigned below the UIDNEXT reported earlier')
            lst.append(u)

    def see_next(name, nxt):
        k = mid(name)
        for uid, _, _ in w.dump(name):
            check(nxt > uid, 'UIDNEXT not greater than an existing UID')
        last_next[k] = nxt

    names = {'other': 'Other'}
    for _ in range(m):
        cond, resp = w.append(0)
        assigned('INBOX', list(resp.code.uids))
    w.select(0)
    validity0 = {n: w.mbx(n).uid_validity for n in ('INBOX', 'Other')}
    for op, a in script:
        other = names['other']
        if op == 'append':
            before = [u for u, _, _ in w.dump('INBOX')]
            cond, resp = w.append(0)
            if cond != 'OK':
                return 'APPEND answered %s' % cond
            after = [u for u, _, _ in w.dump('INBOX')]
            new = after[len(before):]
            rep = list(resp.code.uids)
            if len(new) != 1 or len(rep) != 1:
                return 'APPEND created %d messages, APPENDUID lists %d' % (len(new), len(rep))
            check(new[0] == rep[0], 'APPENDUID names a UID other than the one stored')
            if resp.code.validity != w.mbx('INBOX').uid_validity:
                return 'APPENDUID carries a different UIDVALIDITY'
            assigned('INBOX', new)
        elif op == 'append_other':
            before = [u for u, _, _ in w.dump(other)]
            cond, resp = w.append(0, other)
            if cond != 'OK':
                return 'APPEND answered %s' % cond
            assigned(other, [u for u, _, _ in w.dump(other)][len(before):])
        elif op == 'expunge_highest':
            view = w.server_view(0)
            if view:
                w.store(0, [len(view)], [Deleted], 'ADD', silent=True)
                w.expunge(0)
        elif op in ('copy_self', 'copy_other', 'move_other'):
            dest = 'INBOX' if op == 'copy_self' else other
            before = [u for u, _, _ in w.dump(dest)]
            cond, resp = w.copy(0, [a], dest, move=(op == 'move_other'))
            if cond != 'OK':
                return '%s answered %s' % (op, cond)
            assigned(dest, [u for u, _, _ in w.dump(dest)][len(before):])
        elif op in ('copy2_other', 'move2_other'):
            dest = other
            before = [u for u, _, _ in w.dump(dest)]
            rec['pairs'] = None
            cond, resp = w.copy(0, [a[0], a[1]], dest, move=(op == 'move2_other'))
            if cond != 'OK':
                return '%s answered %s' % (op, cond)
            assigned(dest, [u for u, _, _ in w.dump(dest)][len(before):])
            pairs = rec['pairs'] or []
            if len(pairs) == 2:
                # the client reads COPYUID as two ascending sets and pairs them position by position (the text is
                # checked by copyuid_pairs): the smaller source must belong to the smaller destination
                (s1, d1), (s2, d2) = pairs
                check((s1 < s2) == (d1 < d2), 'COPYUID pairs a source UID with the copy of another message')
        elif op == 'rename':
            new = 'Other2' if other == 'Other' else 'Other'
            obj = w.mbx(other)
            val = obj.uid_validity
            dump0 = w.dump(other)
            cond, resp = w.run(0, g['RenameCommand'](w.tag(), g['Mailbox'](other), g['Mailbox'](new),
                                                     g['ExtensionOptions'].empty()))
            if cond != 'OK':
                return 'RENAME answered %s' % cond
            if w.mbx(new) is not obj or w.mbx(new).uid_validity != val:
                return 'RENAME changed the mailbox object / UIDVALIDITY'
            d1 = w.dump(new)
            if len(d1) != len(dump0):
                return 'RENAME changed the message count'
            for (u0, _, _), (u1, _, _) in zip(dump0, d1):
                check(u0 == u1, 'RENAME changed a UID')
            names['other'] = new
        elif op == 'status':
            for nm in ('INBOX', other):
                cond, resp = w.run(0, g['StatusCommand'](w.tag(), g['Mailbox'](nm),
                                                         [g['StatusAttribute'](b'UIDNEXT'),
                                                          g['StatusAttribute'](b'UIDVALIDITY')]))
                if cond != 'OK':
                    return 'STATUS answered %s' % cond
                for r in resp._untagged:
                    data = getattr(r, 'data', None)
                    if data:
                        for attr, val in data.items():
                            if attr == b'UIDNEXT':
                                see_next(nm, val.value)
                            if attr == b'UIDVALIDITY' and val.value != w.mbx(nm).uid_validity:
                                return 'STATUS reports a different UIDVALIDITY'
    # final: UIDs in each mailbox strictly increasing in storage order, ghost covers them
    for nm in ('INBOX', names['other']):
        d = [u for u, _, _ in w.dump(nm)]
        for x, y in zip(d, d[1:]):
            check(x < y, 'stored UIDs not increasing')
    return None


def _h_history(m, d, ops):
    def fn(eng):
        from pysymex import SymUid, B, AND, Outcome
        base = eng.fresh_int('base', 0, cls=SymUid)
        script = []
        for t in range(d):
            op = ops[eng.choose('op%d' % t, len(ops))]
            a = None
            if op in ('copy_self', 'copy_other', 'move_other'):
                a = eng.fresh_int('a%d' % t, 1, m + d + 1, cls=SymUid)
            elif op in ('copy2_other', 'move2_other'):
                # two numbers in the order the client writes them (ascending or not)
                a = (eng.fresh_int('a%d' % t, 1, m + d + 1, cls=SymUid), eng.fresh_int('b%d' % t, 1, m + d + 1, cls=SymUid))
            script.append((op, a))
        obligations = []
        wit = lambda mdl: {'base': base.eval(mdl), 'm': m,  # noqa: E731
                           'script': [[op, None if a is None else ([x.eval(mdl) for x in a] if isinstance(a, tuple) else a.eval(mdl))]
                                      for op, a in script]}
        err = program(_g, _g['_sim'], base, m, script, lambda c, msg='': obligations.append(B(c)))
        if err is not None:
            return Outcome(False, witness=wit, info=err)
        return Outcome(AND(*obligations), witness=wit)
    return fn


def foreign_expunge(g, sim, base, k, how, a, b, check):
    """session 0 has INBOX selected (3 messages with distinct dates); session 1 expunges message k; session 0, not yet
    told, copies / moves a set to Other.  Every (source, destination) pair handed to COPYUID names one message: the
    destination UID holds the copy of exactly that source UID, the expunged message is in no pair, and there is one
    pair per message that arrived.  returns error|None"""
    rec, restore = _record_copyuid(g)
    try:
        w = sim.World(g, 2, base_uid=base, check=check)
        dt, tz = g['datetime'], g['timezone'].utc
        for i in range(3):
            w.append(1, 'INBOX', when=dt(2020, 1, 1 + i, tzinfo=tz))
        w.select(0)
        w.select(1)
        date_of = {}
        src = list(w.mbx('INBOX')._messages.items())
        w.store(1, [k], [g['Deleted']], 'ADD', silent=True)
        w.expunge(1)
        gone = [(u, m) for u, m in src if not any(bool(u == u2) for u2, _, _ in w.dump('INBOX'))]
        before = [u for u, _, _ in w.dump('Other')]
        rec['pairs'] = None
        elems = [(1, '*')] if how.endswith('all') else [a, b]
        cond, resp = w.copy(0, elems, 'Other', move=how.startswith('move'))
        if cond != 'OK':
            return None
        pairs = rec['pairs'] or []
        arrived = list(w.mbx('Other')._messages.items())[len(before):]
        if len(pairs) != len(arrived):
            return 'COPYUID holds %d pairs, %d messages arrived' % (len(pairs), len(arrived))
        for s_uid, d_uid in pairs:
            for gu, _ in gone:
                check(s_uid != gu, 'COPYUID names a source UID that had been expunged and was not copied')
            smsg = [m for u, m in src if bool(u == s_uid)]
            dmsg = [m for u, m in arrived if bool(u == d_uid)]
            if len(smsg) != 1 or len(dmsg) != 1:
                return 'COPYUID pair (%s, %s) does not name a source message and an arrived message' % (s_uid, d_uid)
            if smsg[0].internal_date != dmsg[0].internal_date:
                return 'COPYUID pairs source UID %s with the copy of another message' % (s_uid,)
        return None
    finally:
        restore()


FOREIGN_HOW = ['copy_all', 'move_all', 'copy_two', 'move_two']


def _h_foreign():
    def fn(eng):
        from pysymex import SymUid, B, AND, Outcome
        base = eng.fresh_int('base', 0, cls=SymUid)
        how = FOREIGN_HOW[eng.choose('how', len(FOREIGN_HOW))]
        k = eng.fresh_int('k', 1, 3, cls=SymUid)
        a = eng.fresh_int('a', 1, 4, cls=SymUid)
        b = eng.fresh_int('b', 1, 4, cls=SymUid)
        obligations = []
        wit = lambda mdl: {'base': base.eval(mdl), 'how': how, 'k': k.eval(mdl), 'a': a.eval(mdl), 'b': b.eval(mdl)}  # noqa: E731
        err = foreign_expunge(_g, _g['_sim'], base, k, how, a, b, lambda c, msg='': obligations.append(B(c)))
        if err is not None:
            return Outcome(False, witness=wit, info=err)
        return Outcome(AND(*obligations), witness=wit)
    return fn


def expand(g, ss, top=10 ** 9):
    """members of a parsed sequence set, in wire order"""
    out = []
    for elem in ss.value:
        if isinstance(elem, tuple):
            a, b = elem
            if b < a:
                a, b = b, a
            n = b - a
            if not isinstance(n, int):
                n = n.__index__()
            out.extend(a + i for i in range(n + 1))
        else:
            out.append(elem)
    return out


def copyuid_pairs(g, pairs):
    """render COPYUID for the pairs with the real code, parse it back with the
    real parser, expand and zip"""
    code = g['CopyUid'](77, pairs)
    raw = code.__bytes__()
    parts = raw.split(b' ')
    if len(parts) != 4 or not bool(parts[0] == b'[COPYUID') or not bool(parts[1] == b'77'):
        return None, 'malformed COPYUID'
    SS = g['SequenceSet']
    src, r1 = SS.parse(_mv(parts[2]), g['Params'](uid=True))
    dst, r2 = SS.parse(_mv(parts[3][:-1]), g['Params'](uid=True))
    if len(r1) or len(r2):
        return None, 'COPYUID sets do not parse completely'
    s, d = expand(g, src), expand(g, dst)
    if len(s) != len(d):
        return None, 'COPYUID sets have different sizes %d/%d' % (len(s), len(d))
    return list(zip(s, d)), None


def _mv(x):
    try:
        from pysymex import SymBytes
        if isinstance(x, SymBytes):
            return x.as_kind('memoryview')
    except ImportError:
        pass
    return memoryview(x)


def _h_copyuid(k):
    def fn(eng):
        from pysymex import SymUid, B, AND, Outcome
        src = [eng.fresh_int('s%d' % i, 1, 9999, cls=SymUid) for i in range(k)]
        dst = [eng.fresh_int('d%d' % i, 1, 9999, cls=SymUid) for i in range(k)]
        for x, y in zip(src, src[1:]):
            eng.add(x.t < y.t)
        for x, y in zip(dst, dst[1:]):
            eng.add(x.t < y.t)
        wit = lambda m: {'pairs': [[s.eval(m), d.eval(m)] for s, d in zip(src, dst)]}  # noqa: E731
        got, err = copyuid_pairs(_g, list(zip(src, dst)))
        if err:
            return Outcome(False, witness=wit, info=err)
        if len(got) != k:
            return Outcome(False, witness=wit, info='pair count')
        return Outcome(AND(*[B(a == s) & B(b == d) for (a, b), s, d in zip(got, src, dst)]), witness=wit)
    return fn


def _h_uidlist_header():
    def fn(eng):
        from pysymex import fresh_str, B, AND, Outcome
        UL = _g['UidList']
        v = eng.fresh_int('v', 0, 2 ** 32)
        n = eng.fresh_int('n', 1, 99999)
        gid = fresh_str(eng, 'g', 3, hi=0x66)
        for c in gid.items:
            eng.add(((c.t >= 0x30) & (c.t <= 0x39)) | ((c.t >= 0x61) & (c.t <= 0x66)))
        ul = UL('/x', v, n, gid.encode('ascii'))
        line = ul._build_header()
        back = UL._read_header('/x', line)
        wit = lambda m: {'v': v.eval(m), 'n': n.eval(m), 'g': gid.eval(m)}  # noqa: E731
        return Outcome(B(back.uid_validity == v) & B(back.next_uid == n) & B(back.global_uid == ul.global_uid),
                       witness=wit)
    return fn


def _h_uidlist_line(nf, nw):
    def fn(eng):
        from pysymex import fresh_str, B, AND, Outcome
        UL, Record = _g['UidList'], _g['Record']
        uid = eng.fresh_int('uid', 1, 99999)
        fname = fresh_str(eng, 'f', nf, hi=0x7e)
        for c in fname.items:
            eng.add(c.t >= 0x21)            # printable, no whitespace
        fields = {}
        if nw:
            wv = fresh_str(eng, 'w', nw, hi=0x7e)
            for c in wv.items:
                eng.add((c.t >= 0x21) & (c.t != 0x3a))   # documented alphabet: no space, no colon
            fields = {'W': wv}
        rec = Record(uid, fields, fname)
        line = UL._build_line(rec)
        back = UL._read_line(line)
        wit = lambda m: {'uid': uid.eval(m), 'fname': fname.eval(m),  # noqa: E731
                         'w': fields['W'].eval(m) if fields else None}
        ok = B(back.uid == uid) & B(back.filename == fname)
        if fields:
            if list(back.fields.keys()) != ['W']:
                return Outcome(False, witness=wit, info='fields %r' % (list(back.fields.keys()),))
            ok = ok & B(back.fields['W'] == fields['W'])
        else:
            ok = ok & B(len(back.fields) == 0)
        return Outcome(ok, witness=wit)
    return fn


def harnesses(tier):
    from pysymex.runner import Harness
    from pysymex import symbytes
    symbytes.MAX_DIGITS = 10
    q = tier == 'quick'
    hs = []
    cfgs = [(1, 3, OPS), (2, 2, OPS)] if q else [(1, 4, OPS), (2, 3, OPS)]
    for m, d, ops in cfgs:
        hs.append(Harness('uid_history[m=%d,d=%d]' % (m, d), _h_history(m, d, ops),
                          {'initial_messages': m, 'history_depth': d, 'ops': ops, 'uid_base': 'unbounded'},
                          replay='history', task_budget=60))
    from checks import _conc
    for nt, nd in ([(2, 3)] if q else [(2, 6), (3, 3)]):
        hs.append(Harness('concurrent_adders[tasks=%d,delays<=%d]' % (nt, nd), _conc.adders_harness(_g, nt, 'uid', nd),
                          {'tasks': nt, 'ops': _conc.ADD_OPS, 'third_party_delays': nd, 'uid_bases': 'symbolic'},
                          replay='adders', task_budget=60))
    from checks import c04_maildir
    _g.setdefault('_mg', None)
    if _g['_mg'] is None:
        _g['_mg'] = c04_maildir.bindings()
    for nt, rw in ([(2, 3)] if q else [(2, 5), (3, 3)]):
        hs.append(Harness('maildir_uidlist_writers[tasks=%d,release<=%d]' % (nt, rw), c04_maildir.harness(_g['_mg'], nt, rw, 120 if q else 10010),
                          {'tasks': nt, 'ops': c04_maildir.OPS, 'third_party_lock_release_within_steps': rw,
                           'next_uid': 'symbolic, 2..120 (quick) / 2..10010 (thorough)'}, replay='mdwriters', task_budget=60))
    from checks import _mdset
    mg = dict(_g['_mg'])
    from pymap.backend.maildir.mailbox import MailboxSet as MaildirMailboxSet
    mg.update(MaildirMailboxSet=MaildirMailboxSet, ResponseError=_g['ResponseError'])
    for layout in ('++', 'fs'):
        for d in ([2] if q else [2, 3]):
            hs.append(Harness('maildir_set_histories[%s,d=%d]' % (layout, d), _mdset.harness(mg, layout, d),
                              {'layout': layout, 'pre_state': 'folders A and B, one message each', 'history_depth': d,
                               'ops': 'RENAME / DELETE / CREATE / APPEND over the names A, B, C (%d forms)' % len(_mdset.OPS)},
                              replay='mdset', task_budget=60))
    hs.append(Harness('copyuid_after_foreign_expunge', _h_foreign(),
                      {'messages': 3, 'expunged_by_other_session': 'symbolic 1..3', 'then': FOREIGN_HOW,
                       'set_numbers': 'symbolic 1..4', 'uid_base': 'unbounded'}, replay='foreign', task_budget=60))
    for k in range(1, (3 if q else 4) + 1):
        hs.append(Harness('copyuid_pairs[k=%d]' % k, _h_copyuid(k), {'pairs': k, 'numbers': '1..9999'},
                          replay='copyuid', task_budget=60))
    hs.append(Harness('uidlist_header', _h_uidlist_header(), {'V': '0..2^32', 'N': '1..99999', 'G': '3 hex chars'},
                      replay='ulheader'))
    for nf, nw in ([(1, 0), (2, 1), (3, 2)] if q else [(1, 0), (2, 1), (3, 2), (4, 3)]):
        hs.append(Harness('uidlist_line[f=%d,w=%d]' % (nf, nw), _h_uidlist_line(nf, nw),
                          {'filename_chars': nf, 'field_chars': nw}, replay='ulline'))
    return hs


def replay(harness, w):
    from checks import _sim
    g = _sim.bindings()
    from pymap.backend.maildir.uidlist import UidList, Record
    from pymap.parsing import Params
    g.update(locals())
    bad = []

    def check(c, msg=''):
        if not c:
            bad.append(msg or 'obligation failed')
    if harness == 'history':
        err = program(g, _sim, w['base'], w['m'], [(op, tuple(a) if isinstance(a, list) else a) for op, a in w['script']], check)
        if err:
            bad.append(err)
    elif harness == 'foreign':
        err = foreign_expunge(g, _sim, w['base'], w['k'], w['how'], w['a'], w['b'], check)
        if err:
            bad.append(err)
    elif harness == 'mdset':
        from checks import _mdset
        bad.extend(_mdset.replay(w))
    elif harness == 'mdwriters':
        from checks import c04_maildir
        bad.extend(c04_maildir.replay(w))
    elif harness == 'adders':
        from checks import _conc
        bad.extend(_conc.adders_replay(g, _sim, w))
    elif harness == 'copyuid':
        pairs = [tuple(p) for p in w['pairs']]
        got, err = copyuid_pairs(g, pairs)
        if err:
            bad.append(err)
        elif got != pairs:
            bad.append('COPYUID %r expands to %r' % (pairs, got))
    elif harness == 'ulheader':
        ul = UidList('/x', w['v'], w['n'], w['g'].encode())
        back = UidList._read_header('/x', ul._build_header())
        if (back.uid_validity, back.next_uid, back.global_uid) != (w['v'], w['n'], w['g'].encode()):
            bad.append('header %r' % ul._build_header())
    elif harness == 'ulline':
        rec = Record(w['uid'], {'W': w['w']} if w['w'] is not None else {}, w['fname'])
        back = UidList._read_line(UidList._build_line(rec))
        if back != rec:
            bad.append('%r -> %r -> %r' % (rec, UidList._build_line(rec), back))
    return {'violates': bool(bad), 'detail': bad[:3], 'category': (bad[0] if bad else '')[:70]}


def classify(harness, w, res):
    return None

"""C04, maildir half: UID assignment through the real maildir code under lock-file contention.

The real maildir MailboxData.append / copy / move, UidList.with_write
(_FileWriteWith), UidList.file_read / file_write / _read_header / _read_line /
_build_header / _build_line and FileLock.write_lock run against an in-memory
file system (file contents are (symbolic) text, written by the real code and
read back by the real code), a stub Maildir object store, a symbolic clock and
a stub asyncio.sleep that suspends.  A third party (another process) may hold
the destination's dovecot-uidlist.lock when the tasks start and release it at
a scheduler step drawn from the engine; the next UID recorded in the file is a
z3 integer.

Oracle (after all tasks are done, the final dovecot-uidlist re-read by the
real code): the UIDs handed out are pairwise distinct, not below the next UID
the file announced, each is recorded with the file name of the message it was
reported for, earlier records are still there, and the recorded next UID is
greater than every recorded UID.

No pymap / pysymex imports at module level.
"""
from __future__ import annotations

OPS = ['append', 'copy0', 'move1', 'move0']


class _Sleep:
    def __init__(self, d):
        self.d = d

    def __await__(self):
        yield ('sleep', self.d)


class _Reader:
    def __init__(self, lines):
        self.lines = list(lines)

    def __enter__(self):
        return self

    def __exit__(self, *a):
        return False

    def readline(self):
        return self.lines.pop(0) if self.lines else ''

    def __iter__(self):
        while self.lines:
            yield self.lines.pop(0)


class _Writer:
    """a file opened for writing: it exists (empty) from the moment it is created; what is written sits in the
    process's buffer and reaches the file - the inode, wherever a rename has moved it meanwhile - when it is closed"""

    def __init__(self, fs, name):
        self.fs = fs
        self.name = name
        self.chunks = []
        self.inode = []
        fs.files[name] = self.inode

    def __enter__(self):
        return self

    def __exit__(self, *a):
        self.inode.extend(self.chunks)
        self.chunks = []
        return False

    def write(self, s):
        self.chunks.append(s)


class MemFS:
    def __init__(self, clock):
        self.files = {}      # path -> list of lines
        self.mtime = {}
        self.clock = clock
        self.ntemp = 0
        self.trace = []

    def path_exists(self, p):
        return p in self.files

    def stat(self, p):
        if p not in self.files:
            raise FileNotFoundError(p)

        class S:
            st_mtime = self.mtime.get(p, 0)
        return S()

    def unlink(self, p):
        if p not in self.files:
            raise FileNotFoundError(p)
        del self.files[p]
        self.trace.append(('unlink', p))

    remove = unlink

    def rename(self, a, b):
        if a not in self.files:
            raise FileNotFoundError(a)
        self.files[b] = self.files.pop(a)
        self.trace.append(('rename', b))

    def named_temp(self, mode='w', delete=True, **k):
        self.ntemp += 1
        return _Writer(self, '/tmp/t%d' % self.ntemp)

    def open(self, p, mode='r', *a, **k):
        if 'x' in mode:
            if p in self.files:
                raise FileExistsError(p)
            self.files[p] = []
            self.mtime[p] = self.clock()
            self.trace.append(('create', p))
            return _Reader([])
        if 'r' in mode:
            if p not in self.files:
                raise FileNotFoundError(p)
            return _Reader(self.files[p])
        raise OSError('stub: mode %r is not modelled' % mode)


class StubMaildir:
    """object store standing in for mailbox.Maildir: key -> (subdir, info, date); the date identifies the message"""
    colon = ':'

    def __init__(self, name):
        self.name = name
        self.msgs = {}
        self.payload = {}
        self.n = 0

    def add(self, msg):
        self.n += 1
        key = '%s%d' % (self.name, self.n)
        self.msgs[key] = (msg.get_subdir(), msg.get_info(), int(msg.get_date()))
        self.payload[key] = msg.get_payload()
        return key

    def get_message_metadata(self, key):
        """as pymap's Maildir.get_message_metadata: "the message contents are not read from disk\""""
        from mailbox import MaildirMessage
        subdir, info, date = self.msgs[key]
        msg = MaildirMessage()
        msg.set_subdir(subdir)
        msg.set_info(info)
        msg.set_date(date)
        return msg

    def get_message(self, key):
        msg = self.get_message_metadata(key)
        msg.set_payload(self.payload.get(key))
        return msg

    def move_message(self, key, dest, dest_subdir):
        subdir, info, date = self.msgs.pop(key)
        dest.msgs[key] = (dest_subdir, info, date)
        dest.payload[key] = self.payload.pop(key, None)
        return key + ':' + info if info else key


def scenario(g, install, ops, nxt0, held, pick, advance, check, release_within=3, content_errors=None):
    """returns a definite error string or None; symbolic obligations go to check()"""
    UidList, Record, MailboxData, ObjectId = g['UidList'], g['Record'], g['MaildirMailboxData'], g['ObjectId']
    AM = g['AppendMessage']
    now = [0]

    def clock():
        return now[0]
    fs = MemFS(clock)
    install(fs, clock, lambda d: _Sleep(d))
    try:
        SP, DP = '/m/S', '/m/D'
        smd, dmd = StubMaildir('s'), StubMaildir('d')
        # initial state written by the real code: S holds two messages (UIDs 1, 2), D one (UID nxt0 - 1)
        from mailbox import MaildirMessage
        ul = UidList(SP, 7, 3, b'0' * 32)
        for j in (0, 1):
            m = MaildirMessage()
            m.set_subdir('cur')
            m.set_date(1000 + j)
            m.set_payload('content of source message %d\r\n' % j)
            key = smd.add(m)
            ul._records[j + 1] = Record(j + 1, {}, key + ':2,')
        ul.file_write()
        ul = UidList(DP, 7, nxt0, b'0' * 32)
        m = MaildirMessage()
        m.set_subdir('cur')
        m.set_date(999)
        old_key = dmd.add(m)
        old_uid = nxt0 - 1
        ul._records[old_uid] = Record(old_uid, {}, old_key + ':2,')
        ul.file_write()
        lockfile = UidList.get_lock(DP)
        if held:
            fs.files[lockfile] = []
            fs.mtime[lockfile] = 0
        S = MailboxData(ObjectId(b'S'), smd, SP)
        D = MailboxData(ObjectId(b'D'), dmd, DP)
        dt = g['datetime']

        async def do(i, op):
            if op == 'append':
                when = dt.fromtimestamp(2000 + i)
                return (await D.append(AM(b'Subject: x\r\n\r\nnew%d' % i, when, frozenset()))).uid
            j = int(op[-1])
            if op.startswith('copy'):
                return await S.copy(j + 1, D)
            return await S.move(j + 1, D)
        want_date = [2000 + i if op == 'append' else 1000 + int(op[-1]) for i, op in enumerate(ops)]
        coros = [do(i, op) for i, op in enumerate(ops)]
        alive = list(range(len(ops)))
        results = [None] * len(ops)
        third = bool(held)
        steps = 0
        while alive:
            steps += 1
            if steps > 60:
                return 'tasks did not finish'
            acts = list(alive)
            if third:
                acts.append('release')
            if third and steps > release_within:
                a = 'release'          # bound: the third party lets go within the first few steps
            else:
                a = acts[pick('run', len(acts))] if len(acts) > 1 else acts[0]
            now[0] = advance()
            if a == 'release':
                del fs.files[lockfile]
                third = False
                continue
            try:
                y = coros[a].send(None)
            except StopIteration as e:
                results[a] = ('done', e.value)
                alive.remove(a)
                continue
            except TimeoutError:
                results[a] = ('timeout', None)
                alive.remove(a)
                continue
            if not (isinstance(y, tuple) and y[0] == 'sleep'):
                raise RuntimeError('unexpected suspension %r' % (y,))
        if lockfile in fs.files:
            return 'the uidlist lock file is left behind'
        final = UidList.file_read(DP)
        recs = list(final.records)
        got = [(i, r[1]) for i, r in enumerate(results) if r[0] == 'done' and r[1] is not None]
        for x, (i, u) in enumerate(got):
            check(u >= nxt0, 'a UID below the announced next UID was handed out')
            for (i2, u2) in got[x + 1:]:
                check(u != u2, 'two additions were given the same UID')
            keys = [k for k, (_, _, date) in dmd.msgs.items() if date == want_date[i]]
            mine = [r for k in keys for r in recs if bool(r.key == k)]
            if not mine:
                return 'the message added by %s (task %d) has no record in the final uidlist' % (ops[i], i)
            if not any(bool(r.uid == u) for r in mine):
                return 'the UID reported for %s (task %d) is recorded for a different message' % (ops[i], i)
        if content_errors is not None:
            # C03: a copy / moved message carries the content of its source
            for i, op in enumerate(ops):
                if op == 'append' or results[i][0] != 'done' or results[i][1] is None:
                    continue
                want = 'content of source message %d\r\n' % int(op[-1])
                for k, (_, _, date) in dmd.msgs.items():
                    if date == want_date[i] and dmd.payload.get(k) != want:
                        content_errors.append('%s: the message in the destination holds %r instead of the source content'
                                              % (op, dmd.payload.get(k)))
        old = [r for r in recs if bool(r.key == old_key)]
        if len(old) != 1:
            return 'an earlier record disappeared from the uidlist (or is listed twice)'
        check(old[0].uid == old_uid, 'an earlier record changed its UID')
        for r in recs:
            check(final.next_uid > r.uid, 'the recorded next UID is not greater than a recorded UID')
        return None
    finally:
        install(None, None, None)


HISTORIES = ['move away and back', 'move into the same mailbox', 'copy into the same mailbox', 'move, then copy back']


def history_scenario(g, install, kind, nxt0):
    """short histories of the real maildir MailboxData.move/copy on two mailboxes; afterwards every mailbox is listed
    with the real messages(): a message file appears under exactly one UID, and the operation returned at all.
    returns error|None"""
    UidList, Record, MailboxData, ObjectId = g['UidList'], g['Record'], g['MaildirMailboxData'], g['ObjectId']
    now = [0]
    fs = MemFS(lambda: now[0])
    install(fs, lambda: now[0], lambda d: _Sleep(d))
    try:
        from mailbox import MaildirMessage
        SP, DP = '/m/S', '/m/D'
        smd, dmd = StubMaildir('s'), StubMaildir('d')
        ul = UidList(SP, 7, nxt0, b'0' * 32)
        m = MaildirMessage()
        m.set_subdir('cur')
        m.set_date(1000)
        m.set_payload('content\r\n')
        key = smd.add(m)
        first = nxt0 - 1
        ul._records[first] = Record(first, {}, key + ':2,')
        ul.file_write()
        UidList(DP, 7, 1, b'1' * 32).file_write()
        S = MailboxData(ObjectId(b'S'), smd, SP)
        D = MailboxData(ObjectId(b'D'), dmd, DP)

        async def run():
            if kind == 0:
                u = await S.move(first, D)
                return await D.move(u, S)
            if kind == 1:
                return await S.move(first, S)
            if kind == 2:
                return await S.copy(first, S)
            u = await S.move(first, D)
            return await D.copy(u, S)

        async def listing(M):
            return [(msg.uid, msg._key) async for msg in M.messages()]

        def drive(co):
            for _ in range(60):
                try:
                    y = co.send(None)
                except StopIteration as e:
                    return 'done', e.value
                except (AttributeError, RuntimeError) as exc:
                    # asyncio.Lock.acquire() on a lock that is taken wants to park on a future of the running loop
                    # (there is none here: the coroutine is stepped by hand) - the task would wait
                    if 'create_future' in str(exc) or 'running event loop' in str(exc):
                        return 'blocked', exc
                    raise
                if not (isinstance(y, tuple) and y and y[0] == 'sleep'):
                    co.close()
                    return 'blocked', y
            return 'blocked', None
        st, val = drive(run())
        if st != 'done':
            return 'the operation never returns: it waits for a lock it holds itself (%s)' % HISTORIES[kind]
        want = {0: 1, 1: 1, 2: 2, 3: 1}[kind]
        for M, store in ((S, smd), (D, dmd)):
            st, lst = drive(listing(M))
            if st != 'done':
                return 'listing a mailbox never returns'
            keys = [k for _, k in lst]
            if len(set(keys)) != len(keys):
                return 'after "%s" one message file is listed under %d UIDs' % (HISTORIES[kind], len(keys))
            if len(lst) != len(store.msgs):
                return 'after "%s" a mailbox lists %d messages, its store holds %d' % (HISTORIES[kind], len(lst), len(store.msgs))
        st, lst = drive(listing(S))
        if len(lst) != want:
            return 'after "%s" the first mailbox lists %d messages, expected %d' % (HISTORIES[kind], len(lst), want)
        return None
    finally:
        install(None, None, None)


def history_harness(g_ref):
    def fn(eng):
        from pysymex import loader, Outcome
        from pysymex.core import SymInt
        SymInt.HASH_OK = True          # {uid: record} dicts in messages(): constant hash, keys compared with ==
        kind = eng.choose('history', len(HISTORIES))
        nxt0 = eng.fresh_int('next_uid', 2, 120)

        def install(fs, clock, sleep):
            loader.FS_HOOK[0] = fs
            loader.ENV_HOOK['clock'] = clock
            loader.ENV_HOOK['sleep'] = sleep
        err = history_scenario(g_ref, install, kind, nxt0)
        return Outcome(err is None, witness=lambda m: {'history': kind, 'next_uid': nxt0.eval(m)}, info=err)
    return fn


def history_replay(w):
    import types
    import pymap.concurrent as C
    import pymap.backend.maildir.io as IO
    g = bindings()
    saved = (C.os, C.time, C.asyncio, IO.os, IO.NamedTemporaryFile)

    def install(fs, clock, sleep):
        if fs is None:
            C.os, C.time, C.asyncio, IO.os, IO.NamedTemporaryFile = saved
            C.__dict__.pop('open', None)
            IO.__dict__.pop('open', None)
            return
        import os as _os
        pathns = types.SimpleNamespace(**{k: getattr(_os.path, k) for k in ('join', 'split', 'basename', 'dirname')})
        pathns.exists = fs.path_exists
        o = types.SimpleNamespace(stat=fs.stat, unlink=fs.unlink, remove=fs.remove, rename=fs.rename, path=pathns)
        C.os = o
        IO.os = o
        C.time = types.SimpleNamespace(time=clock)
        a = types.SimpleNamespace(**{k: v for k, v in vars(saved[2]).items() if not k.startswith('__')})
        a.sleep = sleep
        C.asyncio = a
        C.open = fs.open
        IO.open = fs.open
        IO.NamedTemporaryFile = fs.named_temp
    err = history_scenario(g, install, w['history'], w['next_uid'])
    return [err] if err else []


def bindings():
    from checks import _sim
    g = _sim.bindings()
    from pymap.backend.maildir.uidlist import UidList, Record
    from pymap.backend.maildir.mailbox import MailboxData as MaildirMailboxData
    from pymap.parsing.specials import ObjectId
    g.update(locals())
    return g


def harness(g_ref, ntasks, release_within, max_uid=120, content=False):
    def fn(eng):
        from pysymex import loader, B, AND, Outcome
        ops = [OPS[eng.choose('op%d' % i, len(OPS))] for i in range(ntasks)]
        if any(OPS.index(a) > OPS.index(b) for a, b in zip(ops, ops[1:])):
            return Outcome(True, witness=lambda m: {'skip': True}, site='symmetric')
        nxt0 = eng.fresh_int('next_uid', 2, max_uid)
        held = eng.flip('third_party_holds_lock')
        picks, clockvals, total = [], [], [0]

        def pick(kind, n):
            v = eng.choose('%s%d' % (kind, len(picks)), n)
            picks.append(v)
            return v

        def advance():
            d = eng.fresh_int('dt%d' % len(clockvals), 0, 599)
            total[0] = total[0] + d
            eng.add((total[0] <= 599).t)
            clockvals.append(total[0])
            return total[0]

        def install(fs, clock, sleep):
            loader.FS_HOOK[0] = fs
            loader.ENV_HOOK['clock'] = clock
            loader.ENV_HOOK['sleep'] = sleep
        obligations = []
        wit = lambda m: {'ops': ops, 'next_uid': nxt0.eval(m), 'held': held, 'picks': picks,  # noqa: E731
                         'clock': [c.eval(m) if hasattr(c, 'eval') else c for c in clockvals],
                         'release_within': release_within}
        cerrs = [] if content else None
        err = scenario(g_ref, install, ops, nxt0, held, pick, advance,
                       lambda c, msg='': obligations.append(B(c)), release_within, cerrs)
        if content:
            return Outcome(not cerrs, witness=wit, info=(cerrs or [None])[0])
        if err is not None:
            return Outcome(False, witness=wit, info=err)
        return Outcome(AND(*obligations), witness=wit)
    return fn


def replay(w, content=False):
    """the same schedule on the uninstrumented modules (module attributes patched)"""
    if w.get('skip'):
        return []
    cerrs = [] if content else None
    import types
    import pymap.concurrent as C
    import pymap.backend.maildir.io as IO
    g = bindings()
    saved = (C.os, C.time, C.asyncio, IO.os, IO.NamedTemporaryFile)
    picks, clockq = list(w['picks']), list(w['clock'])
    bad = []

    def install(fs, clock, sleep):
        if fs is None:
            C.os, C.time, C.asyncio, IO.os, IO.NamedTemporaryFile = saved
            C.__dict__.pop('open', None)
            IO.__dict__.pop('open', None)
            return
        import os as _os
        pathns = types.SimpleNamespace(**{k: getattr(_os.path, k) for k in ('join', 'split', 'basename', 'dirname')})
        pathns.exists = fs.path_exists
        o = types.SimpleNamespace(stat=fs.stat, unlink=fs.unlink, remove=fs.remove, rename=fs.rename, path=pathns)
        C.os = o
        IO.os = o
        C.time = types.SimpleNamespace(time=clock)
        a = types.SimpleNamespace(**{k: v for k, v in vars(saved[2]).items() if not k.startswith('__')})
        a.sleep = sleep
        C.asyncio = a
        C.open = fs.open
        IO.open = fs.open
        IO.NamedTemporaryFile = fs.named_temp

    def check(c, msg=''):
        if not c:
            bad.append(msg or 'obligation failed')
    err = scenario(g, install, w['ops'], w['next_uid'], w['held'], lambda kind, n: picks.pop(0) if picks else 0,
                   lambda: clockq.pop(0) if clockq else 0, check, w.get('release_within', 3), cerrs)
    if content:
        return cerrs
    if err:
        bad.append(err)
    return bad

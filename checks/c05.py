"""C05 - the connection state machine follows RFC 3501 section 3.

The real connection loop (IMAPConnection._run_state -> read_command ->
Commands.parse -> ConnectionState.do_command / authenticate / idle) is run on
a scripted transport against the real dict backend.  For every pre-state
(not authenticated, authenticated, selected read-write, selected read-only)
and every command of the built-in set (valid and invalid arguments, existing
and missing mailboxes) the tagged result, the post-state (glass-box fields and
two probe commands) and "refused => nothing changed" are compared with the
RFC 3501 section 3 automaton.  Because the abstract state determines the
behaviour of do_command, agreement on every (state, command) pair extends to
all command sequences by induction; sequences of two commands are run as the
no-invariant cross-check.
"""
from __future__ import annotations

ID = 'C05'
LEVEL = 'model_checking'
TIME_BUDGET = {'quick': 900, 'thorough': 5400}
EXPLANATION = (
    'Exhaustive exploration of the finite abstract state x command table through '
    'the real connection loop, with solver-checked symbolic parts: the letter case '
    'of every command word is one symbolic bit per letter (all 2^k spellings per '
    'path), the UID base of the stored messages is a symbolic integer. The solver\'s '
    'contribution is small here (the property is control-dominated); the universal '
    'claim over command sequences rests on the one-step induction stated above.')
FUNCTIONS = [
    'pymap.imap:IMAPConnection._run_state', 'pymap.imap:IMAPConnection.read_command',
    'pymap.imap:IMAPConnection.readline', 'pymap.imap:IMAPConnection.authenticate',
    'pymap.imap:IMAPConnection.idle', 'pymap.imap.state:ConnectionState.do_command',
    'pymap.imap.state:ConnectionState.do_select', 'pymap.imap.state:ConnectionState.do_close',
    'pymap.imap.state:ConnectionState.do_login', 'pymap.imap.state:ConnectionState.do_authenticate',
    'pymap.imap.state:ConnectionState.do_starttls', 'pymap.imap.state:ConnectionState.do_logout',
    'pymap.imap.state:ConnectionState._get_func_name', 'pymap.parsing.commands:Commands.parse',
]
ASSUMPTIONS = [
    'the abstract state (authenticated?, selected?, read-only?) determines which commands are accepted '
    '(one-step induction); sequences of length 2 are explored as a cross-check',
    'TLS handshake is a stub (start_tls records that it happened)',
]
STUBS = ['scripted in-memory transport (checks/_conn.py) on a real asyncio loop', 'TLS handshake']
OUTSIDE = ['random long command sequences', 'other backends']

_g: dict = {}

# name, kind, line template ({W} = command word with symbolic case), needs
CMDS = [
    ('CAPABILITY', 'any', b'{W}', None), ('NOOP', 'any', b'{W}', None), ('ID', 'any', b'{W} NIL', None),
    ('LOGOUT', 'any', b'{W}', None),
    ('LOGIN', 'nonauth', b'{W} testuser testpass', 'good'), ('LOGIN', 'nonauth', b'{W} testuser wrong', 'bad'),
    ('AUTHENTICATE', 'nonauth', b'{W} PLAIN', 'good'), ('STARTTLS', 'nonauth', b'{W}', None),
    ('SELECT', 'auth', b'{W} INBOX', ('sel', 'INBOX')), ('SELECT', 'auth', b'{W} Missing', ('sel', 'Missing')),
    ('EXAMINE', 'auth', b'{W} Other', ('sel', 'Other')), ('EXAMINE', 'auth', b'{W} Missing', ('sel', 'Missing')),
    # boundary shapes of a name that does not exist: empty (quoted and as a literal), hierarchy root, only a delimiter
    ('SELECT', 'auth', b'{W} ""', ('sel', '')), ('EXAMINE', 'auth', b'{W} {0+}\r\n', ('sel', '')),
    ('SELECT', 'auth', b'{W} "/"', ('sel', '/')), ('EXAMINE', 'auth', b'{W} "Other/"', ('sel', 'Other/')),
    ('CREATE', 'auth', b'{W} New', ('create', 'New')), ('CREATE', 'auth', b'{W} Other', ('create', 'Other')),
    ('DELETE', 'auth', b'{W} Other', ('delete', 'Other')), ('DELETE', 'auth', b'{W} Missing', ('delete', 'Missing')),
    ('RENAME', 'auth', b'{W} Other Other2', ('rename', 'Other', 'Other2')),
    ('RENAME', 'auth', b'{W} Missing x', ('rename', 'Missing', 'x')),
    ('SUBSCRIBE', 'auth', b'{W} Other', 'ok'), ('UNSUBSCRIBE', 'auth', b'{W} Other', 'ok'),
    ('LIST', 'auth', b'{W} "" *', 'ok'), ('LSUB', 'auth', b'{W} "" *', 'ok'),
    ('STATUS', 'auth', b'{W} INBOX (MESSAGES)', ('needs', 'INBOX')),
    ('STATUS', 'auth', b'{W} Missing (MESSAGES)', ('needs', 'Missing')),
    ('APPEND', 'auth', b'{W} INBOX {1+}\r\nx', ('needs', 'INBOX')),
    ('APPEND', 'auth', b'{W} Missing {1+}\r\nx', ('needs', 'Missing')),
    ('CHECK', 'select', b'{W}', 'ok'), ('CLOSE', 'select', b'{W}', 'close'),
    ('EXPUNGE', 'select', b'{W}', 'mut'), ('COPY', 'select', b'{W} 1 Other', ('needs', 'Other')),
    ('COPY', 'select', b'{W} 1 Missing', ('needs', 'Missing')), ('MOVE', 'select', b'{W} 1 Other', ('mutneeds', 'Other')),
    ('FETCH', 'select', b'{W} 1 FLAGS', 'ok'), ('FETCH', 'select', b'{W} 9 FLAGS', 'ok'),
    ('STORE', 'select', b'{W} 1 +FLAGS (\\Seen)', 'mut'), ('SEARCH', 'select', b'{W} ALL', 'ok'),
    ('UID FETCH', 'select', b'{W} 1:* FLAGS', 'ok'), ('UID STORE', 'select', b'{W} 1 FLAGS ()', 'mut'),
    ('UID SEARCH', 'select', b'{W} ALL', 'ok'), ('UID COPY', 'select', b'{W} 1 Other', ('needs', 'Other')),
    ('UID MOVE', 'select', b'{W} 9 Other', ('mutneeds', 'Other')), ('UID EXPUNGE', 'select', b'{W} 1', 'mut'),
    ('IDLE', 'select', b'{W}', 'ok'),
    ('FETCH', 'invalid', b'{W}', None), ('BOGUS', 'invalid', b'{W} x', None), ('SELECT', 'invalid', b'{W}', None),
]
STATES = ['NA', 'AU', 'RW', 'RO', 'RWE', 'ROE']   # ..E: the selected mailbox is empty (same abstract state)
PLAIN_GOOD = b'AHRlc3R1c2VyAHRlc3RwYXNz\r\n'   # \0testuser\0testpass


def setup() -> None:
    from checks import _sim, _conn
    _g.update(_sim.bindings())
    from pymap.imap import IMAPConnection
    from pymap.context import connection_exit
    from pymap.backend.dict import Login
    from pymap.user import UserMetadata
    _g.update(locals())


def spec(state, names, name, kind, arg):
    """RFC 3501 section 3 + a set-of-names model: returns (allowed conditions, next state,
    next selected name | None | 'same', refused?).  `names` is updated in place."""
    if kind == 'invalid':
        return {'BAD'}, state, 'same', True
    if kind == 'any':
        return {'OK'}, ('END' if name == 'LOGOUT' else state), 'same', False
    if kind == 'nonauth':
        if state != 'NA':
            return {'BAD'}, state, 'same', True
        if name == 'STARTTLS':
            if '\x00tls' in names:
                return {'NO'}, 'NA', 'same', False     # already negotiated: no longer advertised
            names.add('\x00tls')
            return {'OK'}, 'NA', 'same', False
        if arg == 'good':
            return {'OK'}, 'AU', None, False
        return {'NO'}, 'NA', 'same', False
    if kind == 'auth':
        if state == 'NA':
            return {'BAD'}, state, 'same', True
        if isinstance(arg, tuple):
            if arg[0] == 'sel':
                if arg[1] in names:
                    return {'OK'}, ('RO' if name == 'EXAMINE' else 'RW'), arg[1], False
                return {'NO'}, 'AU', None, False
            if arg[0] == 'create':
                if arg[1] in names:
                    return {'NO'}, state, 'same', False
                names.add(arg[1])
                return {'OK'}, state, 'same', False
            if arg[0] == 'delete':
                if arg[1] in names and arg[1] != 'INBOX':
                    names.discard(arg[1])
                    return {'OK'}, state, 'same', False
                return {'NO'}, state, 'same', False
            if arg[0] == 'rename':
                if arg[1] in names and arg[2] not in names:
                    names.discard(arg[1])
                    names.add(arg[2])
                    return {'OK'}, state, 'same', False
                return {'NO'}, state, 'same', False
            if arg[0] == 'needs':
                return ({'OK'} if arg[1] in names else {'NO'}), state, 'same', False
        return {'OK'}, state, 'same', False
    # select
    if state in ('NA', 'AU'):
        return {'BAD'}, state, 'same', True
    if arg == 'close':
        return {'OK'}, 'AU', None, False
    if arg == 'mut':
        return ({'NO'} if state == 'RO' else {'OK'}), state, 'same', False
    if isinstance(arg, tuple):
        if arg[0] == 'mutneeds' and state == 'RO':
            return {'NO'}, state, 'same', False
        return ({'OK'} if arg[1] in names else {'NO'}), state, 'same', False
    return {'OK'}, state, 'same', False


def _fb(f):
    v = f.value
    return v if isinstance(v, bytes) else bytes(v.items)


def _store_dump(cfg):
    sets = cfg.set_cache.get('testuser')
    if not sets:
        return None
    mset = sets[0]
    out = {'names': sorted(mset._set.keys()), 'sub': sorted(k for k, v in mset._subscribed.items() if v)}
    for nm in ['INBOX'] + out['names']:
        mbx = mset._inbox if nm == 'INBOX' else mset._set[nm]
        out[nm] = [(str(uid), tuple(sorted(_fb(f) for f in m.permanent_flags))) for uid, m in mbx._messages.items()]
    return out


def scenario(g, conn_mod, sim, pre, cmds, word_items, base):
    """cmds: list of indices into CMDS (1 or 2 commands under test).
    word_items(i, word) -> items for the command word (symbolic case under
    the engine, as given in replay).  Returns error|None."""
    cfg = sim.make_config(g, tls=True)
    login = g['Login'](cfg)
    login.users_dict['testuser'] = g['UserMetadata'](
        cfg, 'testuser', password=cfg.hash_context.hash('testpass'))
    mset = g['MailboxSet']()
    fset = g['FilterSet']()
    sim.run_coro(mset.add_mailbox('Other'))
    sim.run_coro(mset.add_mailbox('Empty'))
    if base is not None:
        mset._inbox._max_uid = base
    for _ in range(2):
        sim.run_coro(mset._inbox.append(g['AppendMessage'](b'x', None, frozenset())))
    sim.run_coro(sim.run_coro(mset.get_mailbox('Other')).append(g['AppendMessage'](b'y', None, frozenset())))
    cfg.set_cache['testuser'] = (mset, fset)
    feed = []
    if pre != 'NA':
        feed.append(b'l LOGIN testuser testpass\r\n')
    if pre in ('AU', 'RW', 'RO', 'RWE', 'ROE') and False:
        pass
    if pre == 'RW':
        feed.append(b's SELECT INBOX\r\n')
    if pre == 'RO':
        feed.append(b's EXAMINE INBOX\r\n')
    if pre == 'RWE':
        feed.append(b's SELECT Empty\r\n')
    if pre == 'ROE':
        feed.append(b's EXAMINE Empty\r\n')
    snaps = {}
    holder = {}

    def snap(key):
        def f(tr):
            st = holder['get_state']()
            snaps[key] = {'dump': _store_dump(cfg), 'session': st._session is not None,
                          'selected': None if st._selected is None else (st._selected.lookup, st._selected.readonly)}
            return None
        return f
    for k, ci in enumerate(cmds):
        name, kind, tmpl, arg = CMDS[ci]
        feed.append(snap('before%d' % k))
        pre_t, _, post_t = tmpl.partition(b'{W}')
        line = list(b't%d ' % k) + list(pre_t) + word_items(k, name.encode()) + list(post_t) + [13, 10]
        feed.append(line)
        if name == 'AUTHENTICATE':
            feed.append(lambda tr: PLAIN_GOOD if bytes(x if isinstance(x, int) else 63 for x in tr.output()).endswith(b'+ \r\n') else None)
        if name == 'IDLE':
            feed.append(lambda tr: b'DONE\r\n' if b'+ Idling' in bytes(x if isinstance(x, int) else 63 for x in tr.output()) else None)
        feed.append(snap('after%d' % k))
    feed += [b'p1 LIST "" ""\r\n', b'p2 CHECK\r\n', snap('end')]
    import types

    def to_line(e):
        if isinstance(e, list):
            return mk_bytes(e)
        return e
    mk_bytes = holder.setdefault('mk', None) or (lambda items: bytes(items))
    if any(not isinstance(x, int) for e in feed if isinstance(e, list) for x in e):
        from pysymex import SymBytes
        mk_bytes = lambda items: SymBytes(items, 'bytes')  # noqa: E731
    feed = [to_line(e) for e in feed]
    state_ref = {}
    orig_cs = g['ConnectionState']

    class _CS(orig_cs):
        def __init__(self, *a, **k):
            super().__init__(*a, **k)
            state_ref['s'] = self
    holder['get_state'] = lambda: state_ref['s']
    g2 = dict(g)
    g2['ConnectionState'] = _CS
    tr, state, exc = conn_mod.run_imap(g2, login, cfg, feed, local=True)
    if exc is not None:
        return 'connection task raised %r' % (exc,)
    out = bytes(x if isinstance(x, int) else 63 for x in tr.output())
    lines, conds = conn_mod.tagged(list(out))
    if b'[SERVERBUG]' in out:
        return 'internal-error BYE'
    state_now = pre[:2]
    sel_now = 'INBOX' if pre in ('RW', 'RO') else 'Empty' if pre in ('RWE', 'ROE') else None
    names = {'INBOX', 'Other', 'Empty'}
    for k, ci in enumerate(cmds):
        name, kind, tmpl, arg = CMDS[ci]
        if state_now == 'END':
            break
        if isinstance(arg, tuple) and arg[0] in ('delete', 'rename') and arg[1] == sel_now \
                and state_now in ('RW', 'RO'):
            return None   # deleting/renaming the selected mailbox ends the selection with BYE: outside this automaton
        allowed, nxt, nsel, refused = spec(state_now, names, name, kind, arg)
        tag = b't%d' % k
        got = conds.get(tag)
        if got not in allowed:
            return '%s in state %s answered %s, RFC automaton allows %s' % (name, state_now, got, '/'.join(sorted(allowed)))
        b, a = snaps.get('before%d' % k), snaps.get('after%d' % k)
        if name == 'LOGOUT':
            i = out.find(b'* BYE')
            j = out.find(tag + b' OK')
            if i < 0 or j < 0 or i > j:
                return 'LOGOUT did not answer BYE then OK'
            state_now = 'END'
            continue
        if a is None or b is None:
            return 'driver: missing snapshot'
        if refused:
            if a['dump'] != b['dump'] or a['session'] != b['session'] or a['selected'] != b['selected']:
                return 'refused %s changed state or data' % name
        # glass-box post-state
        want_session = nxt != 'NA'
        if a['session'] != want_session:
            return '%s in state %s: authenticated=%s afterwards, expected %s' % (name, state_now, a['session'], want_session)
        if nxt in ('RW', 'RO'):
            target = sel_now if nsel == 'same' else nsel
            if a['selected'] is None:
                return '%s in state %s: nothing selected afterwards' % (name, state_now)
            if a['selected'][1] != (nxt == 'RO'):
                return '%s: read-only status of the selection is wrong' % name
            if a['selected'][0] != target:
                return '%s: selected mailbox is %r, expected %r' % (name, a['selected'][0], target)
            sel_now = a['selected'][0]
        else:
            if a['selected'] is not None:
                return '%s in state %s: mailbox %r is still selected' % (name, state_now, a['selected'][0])
            sel_now = None
        state_now = nxt
    if state_now != 'END':
        # black-box probes reveal the state as well
        want_p1 = 'BAD' if state_now == 'NA' else 'OK'
        want_p2 = 'OK' if state_now in ('RW', 'RO') else 'BAD'
        if conds.get(b'p1') != want_p1 or conds.get(b'p2') != want_p2:
            return 'probes LIST/CHECK answered %s/%s in state %s' % (conds.get(b'p1'), conds.get(b'p2'), state_now)
    return None


def _harness(nseq):
    def fn(eng):
        from pysymex import SymInt, SymUid, Outcome
        import z3
        pre = STATES[eng.choose('pre', len(STATES))]
        cmds = [eng.choose('cmd%d' % k, len(CMDS)) for k in range(nseq)]
        base = eng.fresh_int('base', 1000, 8000, cls=SymUid)
        bits = {}

        def word_items(k, word):
            out = []
            for j, c in enumerate(word):
                if 65 <= c <= 90:
                    b = eng.fresh_bool('lc%d_%d' % (k, j))
                    bits[(k, j)] = b
                    out.append(SymInt(z3.If(b.t, c + 32, c)))
                else:
                    out.append(c)
            return out

        def wit(m):
            return {'pre': pre, 'cmds': cmds, 'base': base.eval(m),
                    'lower': [[k, j] for (k, j), b in bits.items() if z3.is_true(m.eval(b.t, model_completion=True))]}
        err = scenario(_g, _g['_conn'], _g['_sim'], pre, cmds, word_items, base)
        return Outcome(err is None, witness=wit, info=err)
    return fn


def vanish_scenario(g, conn_mod, sim, how, readonly, word_items):
    """the selected mailbox is deleted / renamed away behind the connection's back (what another connection's DELETE /
    RENAME does); then CLOSE: it always succeeds and deselects.  returns error|None"""
    cfg = sim.make_config(g, tls=True)
    login = g['Login'](cfg)
    login.users_dict['testuser'] = g['UserMetadata'](cfg, 'testuser', password=cfg.hash_context.hash('testpass'))
    mset = g['MailboxSet']()
    fset = g['FilterSet']()
    sim.run_coro(mset.add_mailbox('Other'))
    sim.run_coro(sim.run_coro(mset.get_mailbox('Other')).append(g['AppendMessage'](b'y', None, frozenset([g['Deleted']]))))
    cfg.set_cache['testuser'] = (mset, fset)
    state_ref = {}
    orig_cs = g['ConnectionState']

    class _CS(orig_cs):
        def __init__(self, *a, **k):
            super().__init__(*a, **k)
            state_ref['s'] = self
    g2 = dict(g)
    g2['ConnectionState'] = _CS
    seen = {}

    def vanish(tr):
        if how == 'delete':
            sim.run_coro(mset.delete_mailbox('Other'))
        else:
            sim.run_coro(mset.rename_mailbox('Other', 'Elsewhere'))
        return None

    def after(tr):
        st = state_ref['s']
        seen['selected'] = None if st._selected is None else st._selected.lookup
        return None
    line = list(b'c ') + word_items(0, b'CLOSE') + [13, 10]
    if any(not isinstance(x, int) for x in line):
        from pysymex import SymBytes
        line = SymBytes(line, 'bytes')
    else:
        line = bytes(line)
    feed = [b'l LOGIN testuser testpass\r\n', b's %s Other\r\n' % (b'EXAMINE' if readonly else b'SELECT'), vanish, line, after,
            b'p1 LIST "" ""\r\n', b'p2 CHECK\r\n']
    tr, state, exc = conn_mod.run_imap(g2, login, cfg, feed, local=True)
    if exc is not None:
        return 'connection task raised %r' % (exc,)
    out = bytes(x if isinstance(x, int) else 63 for x in tr.output())
    lines, conds = conn_mod.tagged(list(out))
    if b'[SERVERBUG]' in out:
        return 'internal-error BYE'
    if conds.get(b'c') != 'OK':
        return 'CLOSE of a selection whose mailbox was %sd elsewhere answered %s' % (how, conds.get(b'c'))
    if seen.get('selected') is not None:
        return 'CLOSE answered OK but %r is still selected' % (seen['selected'],)
    if conds.get(b'p1') != 'OK' or conds.get(b'p2') != 'BAD':
        return 'after CLOSE the probes LIST/CHECK answered %s/%s' % (conds.get(b'p1'), conds.get(b'p2'))
    return None


def _h_vanish():
    def fn(eng):
        from pysymex import SymInt, Outcome
        import z3
        how = ['delete', 'rename'][eng.choose('how', 2)]
        readonly = bool(eng.flip('examine'))
        bits = {}

        def word_items(k, word):
            out = []
            for j, c in enumerate(word):
                b = eng.fresh_bool('lc%d' % j)
                bits[j] = b
                out.append(SymInt(z3.If(b.t, c + 32, c)))
            return out

        def wit(m):
            return {'how': how, 'readonly': readonly,
                    'lower': [j for j, b in bits.items() if z3.is_true(m.eval(b.t, model_completion=True))]}
        err = vanish_scenario(_g, _g['_conn'], _g['_sim'], how, readonly, word_items)
        return Outcome(err is None, witness=wit, info=err)
    return fn


def harnesses(tier):
    from pysymex.runner import Harness
    hs = [Harness('close_after_mailbox_vanished', _h_vanish(),
                  {'how': ['delete', 'rename'], 'selection': ['read-write', 'read-only'], 'command_case': 'symbolic'},
                  replay='vanish', task_budget=30),
          Harness('state_x_command', _harness(1), {'pre_states': STATES, 'commands': len(CMDS), 'sequence': 1},
                  replay='scenario', task_budget=12, sample_every=5, max_samples=30)]
    if tier == 'thorough':
        hs.append(Harness('sequences_of_2', _harness(2), {'pre_states': STATES, 'commands': len(CMDS), 'sequence': 2},
                          replay='scenario', task_budget=12, sample_every=97, max_samples=30))
    return hs


def replay(harness, w):
    from checks import _sim, _conn
    g = _sim.bindings()
    from pymap.imap import IMAPConnection
    from pymap.context import connection_exit
    from pymap.backend.dict import Login
    from pymap.user import UserMetadata
    g.update(locals())
    if harness == 'vanish':
        low = set(w['lower'])
        err = vanish_scenario(g, _conn, _sim, w['how'], w['readonly'],
                              lambda k, word: [c + 32 if j in low else c for j, c in enumerate(word)])
        return {'violates': err is not None, 'detail': err, 'category': (err or '')[:80]}
    lower = set((k, j) for k, j in w['lower'])

    def word_items(k, word):
        return [c + 32 if (65 <= c <= 90 and (k, j) in lower) else c for j, c in enumerate(word)]
    err = scenario(g, _conn, _sim, w['pre'], w['cmds'], word_items, w['base'])
    return {'violates': err is not None, 'detail': err, 'category': (err or '')[:80]}


def classify(harness, w, res):
    return None

"""C06 - every input is answered: no hang, no internal error.

Totality of the real parsers over symbolic buffers.  For each unit parser
and for ``Commands.parse`` behind grammar-guided concrete prefixes, the call
either returns (object, rest-suffix) or raises NotParseable (any subclass) /
ParsingInterrupt; anything else would surface as ``* BYE [SERVERBUG]`` in
IMAPConnection._run_state; running past the loop budget is non-termination
(which freezes the single event loop).
"""
from __future__ import annotations

ID = 'C06'
LEVEL = 'model_checking'
TIME_BUDGET = {'quick': 1200, 'thorough': 7200}
EXPLANATION = (
    'Bounded symbolic execution of the real parsers: every byte of the buffer '
    '(after an optional concrete prefix) is a z3 integer; the path tree of the '
    'parser is exhausted; a path on which an exception other than NotParseable/'
    'ParsingInterrupt escapes, or on which the loop budget 40*(len+4) is '
    'exceeded, is a counterexample whose model is replayed against plain pymap '
    '(with a wall-clock alarm for hangs).')
FUNCTIONS = [
    'pymap.parsing.commands:Commands.parse', 'pymap.parsing.specials.tag:Tag.parse',
    'pymap.parsing.primitives:Atom.parse', 'pymap.parsing.primitives:Number.parse',
    'pymap.parsing.primitives:Nil.parse', 'pymap.parsing.primitives:QuotedString.parse',
    'pymap.parsing.primitives:LiteralString.parse', 'pymap.parsing.primitives:String.parse',
    'pymap.parsing.primitives:List.parse', 'pymap.parsing.specials.astring:AString.parse',
    'pymap.parsing.specials.mailbox:Mailbox.parse', 'pymap.parsing.modutf7:modutf7_decode',
    'pymap.parsing.modutf7:_modified_b64decode',
    'pymap.parsing.specials.sequenceset:SequenceSet.parse', 'pymap.parsing.specials.flag:Flag.parse',
    'pymap.parsing.specials.datetime_:DateTime.parse', 'pymap.parsing.specials.statusattr:StatusAttribute.parse',
    'pymap.parsing.specials.fetchattr:FetchAttribute.parse', 'pymap.parsing.specials.fetchattr:FetchAttribute._parse_section',
    'pymap.parsing.specials.searchkey:SearchKey.parse', 'pymap.parsing.specials.searchkey:SearchKey._parse_astring_filter',
    'pymap.parsing.specials.searchkey:SearchKey._parse_date_filter',
    'pymap.parsing.specials.objectid:ObjectId.parse', 'pymap.parsing.specials.options:ExtensionOption.parse',
    'pymap.parsing.specials.options:ExtensionOptions.parse',
    'pymap.parsing.command.select:SearchCommand.parse', 'pymap.parsing.command.select:SearchCommand._parse_charset',
    'pymap.parsing.command.select:FetchCommand.parse', 'pymap.parsing.command.select:StoreCommand.parse',
    'pymap.parsing.command.select:IdleCommand.parse_done', 'pymap.parsing.command.auth:AppendCommand.parse',
    'pymap.parsing.command.auth:ListCommand.parse', 'pymap.parsing.command.auth:StatusCommand.parse',
    'pymap.parsing.command.any:IdCommand.parse', 'pymap.parsing.command.nonauth:LoginCommand.parse',
    'pymap.sieve.manage.command:Command.parse',
]
ASSUMPTIONS = [
    'buffer length <= the stated bound; command lines contain no LF before their final one (what '
    'StreamReader.readline delivers); literal continuation depth <= 2',
    'A-codec: a symbolic charset name equals one of the modelled text codecs (ascii, utf-8, latin-1, utf-7, utf-16-be and '
    'aliases), one of the registered non-text codecs (hex, base64, rot13, zlib, bz2, uu, quopri), contains NUL (ValueError) '
    'or is unknown (LookupError)',
    'datetime.strptime on symbolic text either returns a datetime or raises ValueError (documented contract)',
]
STUBS = ['datetime.strptime (nondeterministic: value or ValueError)',
         'UTF-7 / UTF-8 / ASCII codecs: exact models ported from CPython, validated by pysymex.difftest',
         'read_command continuation loop replayed by the harness']
OUTSIDE = ['rendering of stored messages (email.headerregistry, email.utils)', 'lines near the 64 KiB limit',
           'deeply nested lists (RecursionError needs hundreds of bytes)', 'the asyncio stream layer']

_g: dict = {}
_cg: dict = {}     # bindings of the connection-level harnesses


def setup() -> None:
    from pysymex import symbytes
    symbytes.SymBytes.HASH_OK = True   # Flag caches hash(value); keys of ExtensionOptions
    symbytes.SymStr.HASH_OK = True
    from pysymex.core import SymInt
    SymInt.HASH_OK = True  # SearchKey/SequenceSet hashes: identity of keys is not part of totality
    from pymap.parsing import Params
    from pymap.parsing.state import ParsingState, ParsingInterrupt, ExpectContinuation
    from pymap.parsing.exceptions import NotParseable
    from pymap.parsing.commands import Commands
    import pymap.parsing.primitives as prim
    import pymap.parsing.specials as spec
    from pymap.parsing.command.select import IdleCommand
    import pymap.sieve.manage.command as sieve_cmd
    _g.update(locals())


UNITS = {
    'Tag': ('spec', {}), 'Atom': ('prim', {}), 'Number': ('prim', {}), 'Nil': ('prim', {}),
    'QuotedString': ('prim', {}), 'LiteralString': ('prim', {}), 'String': ('prim', {}),
    'List': ('prim', {'expected': ['AString', 'List']}), 'AString': ('spec', {}),
    'Mailbox': ('spec', {}), 'SequenceSet': ('spec', {}), 'Flag': ('spec', {}),
    'DateTime': ('spec', {}), 'StatusAttribute': ('spec', {}), 'FetchAttribute': ('spec', {}),
    'SearchKey': ('spec', {}), 'ObjectId': ('spec', {}), 'ExtensionOptions': ('spec', {}),
}


def _params(g, extra, state=None):
    kw = {}
    if 'expected' in extra:
        kw['expected'] = [getattr(g['prim'], n, None) or getattr(g['spec'], n) for n in extra['expected']]
    return g['Params'](state, **kw)


def _call_unit(g, name, buf, follow):
    mod, extra = UNITS[name]
    P = getattr(g[mod], name)
    conts = []
    for _ in range(4):
        st = g['ParsingState'](continuations=conts)
        try:
            return P.parse(buf, _params(g, extra, st))
        except g['ParsingInterrupt'] as intr:
            if follow is None or len(conts) >= 2:
                raise
            conts.append(follow(intr.expected.literal_length))
    raise g['NotParseable'](buf)


def _call_commands(g, buf, follow):
    conts = []
    cmds = g['Commands']()
    for _ in range(4):
        st = g['ParsingState'](continuations=conts)
        try:
            return cmds.parse(buf, g['Params'](st, max_append_len=1000))
        except g['ParsingInterrupt'] as intr:
            if follow is None or len(conts) >= 2:
                raise
            conts.append(follow(intr.expected.literal_length))
    raise g['NotParseable'](buf)


def _outcome(g, call, buf_len):
    """returns (kind, detail): ok | rejected | interrupt | escape"""
    try:
        obj, rest = call()
    except g['NotParseable']:
        return 'rejected', None
    except g['ParsingInterrupt']:
        return 'interrupt', None
    except Exception as exc:   # noqa: BLE001 -- this *is* the property
        import traceback
        fr = [f for f in traceback.extract_tb(exc.__traceback__) if '/pymap/' in f.filename]
        where = '%s:%s' % (fr[-1].filename.split('/pymap/')[-1], fr[-1].name) if fr else '?'
        return 'escape', '%s@%s: %s' % (type(exc).__name__, where, str(exc)[:60])
    if len(rest) > buf_len:
        return 'escape', 'rest longer than input'
    return 'ok', None


def _h_unit(name, n, nolf=False):
    def fn(eng):
        from pysymex import fresh_bytes, Outcome, FuelExhausted
        buf = fresh_bytes(eng, 'b', n, 'memoryview')
        wit = lambda m: {'unit': name, 'buf': bytes(buf.eval(m)).hex(),  # noqa: E731
                         'conts': [bytes(c.eval(m)).hex() for c in conts]}
        conts = []

        def follow(k):
            if k > 3:
                from pysymex import BoundExceeded
                raise BoundExceeded('continuation literal longer than 3 bytes')
            c = fresh_bytes(eng, 'c%d_' % eng.nfresh, k, 'memoryview') + b'\r\n'
            conts.append(c)
            return c
        try:
            kind, detail = _outcome(_g, lambda: _call_unit(_g, name, buf, follow), n + 8)
        except FuelExhausted as exc:
            return Outcome(False, witness=wit, site='hang', info=str(exc))
        if kind == 'escape':
            return Outcome(False, witness=wit, site='escape', info=detail)
        return Outcome(True, witness=wit, site=kind)
    return fn


def _h_line(prefix, m, suffix=b'\n', literal=None):
    """Commands.parse(prefix + m symbolic bytes (no LF) + suffix)"""
    def fn(eng):
        from pysymex import fresh_bytes, SymBytes, Outcome, FuelExhausted
        body = fresh_bytes(eng, 'b', m)
        for c in body.items:
            eng.add(c.t != 10)
        items = list(prefix) + body.items + list(suffix)
        buf = SymBytes(items, 'memoryview')
        wit = lambda mdl: {'line': bytes(buf.eval(mdl)).hex(),  # noqa: E731
                           'conts': [bytes(c.eval(mdl)).hex() for c in conts]}
        conts = []

        def follow(k):
            if k > 3:
                from pysymex import BoundExceeded
                raise BoundExceeded('continuation literal longer than 3 bytes')
            c = fresh_bytes(eng, 'c%d_' % eng.nfresh, k, 'memoryview') + b'\r\n'
            conts.append(c)
            return c
        try:
            kind, detail = _outcome(_g, lambda: _call_commands(_g, buf, follow), len(items) + 8)
        except FuelExhausted as exc:
            return Outcome(False, witness=wit, site='hang', info=str(exc))
        if kind == 'escape':
            return Outcome(False, witness=wit, site='escape', info=detail)
        return Outcome(True, witness=wit, site=kind)
    return fn


def _h_idle_done(n):
    def fn(eng):
        from pysymex import fresh_bytes, Outcome, B
        buf = fresh_bytes(eng, 'b', n, 'memoryview')
        wit = lambda m: {'done': bytes(buf.eval(m)).hex()}  # noqa: E731
        cmd = _g['IdleCommand'](b'a')
        try:
            ok, rest = cmd.parse_done(buf)
        except _g['NotParseable']:
            return Outcome(True, witness=wit, site='rejected')
        except Exception as exc:  # noqa: BLE001
            return Outcome(False, witness=wit, site='escape', info=repr(exc)[:80])
        # OK <=> the line is DONE (any case) + line end  (also used by C16)
        line = buf[:len(buf) - len(rest)]
        k = len(line)
        body = line[:k - 2] if (k >= 2 and line[k - 2] == 13) else line[:k - 1]
        is_done = len(body) == 4 and bool(body.upper() == b'DONE')
        return Outcome(B(ok) == B(is_done), witness=wit, site='parsed')
    return fn


def _h_sieve(prefix, m):
    def fn(eng):
        from pysymex import fresh_bytes, SymBytes, Outcome, FuelExhausted
        body = fresh_bytes(eng, 'b', m)
        for c in body.items:
            eng.add(c.t != 10)
        items = list(prefix) + body.items + [10]
        buf = SymBytes(items, 'memoryview')
        wit = lambda mdl: {'sieve': bytes(buf.eval(mdl)).hex()}  # noqa: E731
        try:
            kind, detail = _outcome(_g, lambda: _g['sieve_cmd'].Command.parse(buf, _g['Params']()), len(items) + 8)
        except FuelExhausted as exc:
            return Outcome(False, witness=wit, site='hang', info=str(exc))
        if kind == 'escape':
            return Outcome(False, witness=wit, site='escape', info=detail)
        return Outcome(True, witness=wit, site=kind)
    return fn


SIEVE_DIGIT_LINES = [b'HAVESPACE "a" %D', b'PUTSCRIPT "a" {%D+}', b'PUTSCRIPT "a" {%D}', b'AUTHENTICATE "PLAIN" {%D+}',
                     b'CHECKSCRIPT {%D+}', b'HAVESPACE {%D+}']


def _h_sieve_digits(ndigits):
    """a run of thousands of digits where the ManageSieve grammar has a number (Python refuses to convert more than
    4300 digits): the parser answers with a command or NotParseable, nothing else escapes (the run is concrete, see
    conn:digit_runs)"""
    def fn(eng):
        from pysymex import Outcome, FuelExhausted
        which = eng.choose('line', len(SIEVE_DIGIT_LINES))
        pre, _, post = SIEVE_DIGIT_LINES[which].partition(b'%D')
        line = pre + b'1' * ndigits + post + b'\r\n'
        wit = lambda mdl: {'sieve': line.hex()}  # noqa: E731
        try:
            kind, detail = _outcome(_g, lambda: _g['sieve_cmd'].Command.parse(memoryview(line), _g['Params']()), len(line) + 8)
        except FuelExhausted as exc:
            return Outcome(False, witness=wit, site='hang', info=str(exc))
        if kind == 'escape':
            return Outcome(False, witness=wit, site='escape', info=detail)
        return Outcome(True, witness=wit, site=kind)
    return fn


PREFIXES_Q = [
    (b'', 4), (b'a ', 4), (b'a SELECT ', 4), (b'a SELECT "', 4), (b'a LOGIN ', 3), (b'a LIST "" ', 3),
    (b'a SEARCH ', 4), (b'a SEARCH SUBJECT ', 3), (b'a SEARCH CHARSET utf-8 SUBJECT ', 3),
    (b'a SEARCH CHARSET ', 3), (b'a SEARCH BEFORE ', 3), (b'a SEARCH OR ', 3),
    (b'a FETCH 1 ', 4), (b'a FETCH 1 BODY[', 4), (b'a FETCH 1 (', 3), (b'a STORE 1 ', 3),
    (b'a STORE 1 +FLAGS ', 3), (b'a UID ', 3), (b'a UID FETCH ', 3), (b'a APPEND x ', 3),
    (b'a APPEND x (', 3), (b'a STATUS x (', 3), (b'a ID ', 3), (b'a ID (', 3),
    (b'a RENAME a ', 3), (b'a CREATE ', 3), (b'a AUTHENTICATE ', 3), (b'a COPY ', 3),
    (b'a EXPUNGE', 2), (b'a SELECT x (', 3),
]
SIEVE_Q = [(b'', 4), (b'PUTSCRIPT ', 3), (b'PUTSCRIPT "a" ', 3), (b'AUTHENTICATE ', 3), (b'HAVESPACE "a" ', 3),
           (b'SETACTIVE ', 3), (b'RENAMESCRIPT "a" ', 3)]


def harnesses(tier):
    from pysymex.runner import Harness
    q = tier == 'quick'
    hs = []
    nunit = 4 if q else 6
    for name in UNITS:
        big = name in ('SearchKey', 'FetchAttribute', 'List', 'ExtensionOptions')
        for n in range(0, (nunit - 1 if big and not q else nunit) + 1):
            hs.append(Harness('unit:%s[len=%d]' % (name, n), _h_unit(name, n), {'unit': name, 'len': n},
                              replay='unit', fuel=40 * (n + 4), task_budget=120))
    extra = 0 if q else 2
    for prefix, m in PREFIXES_Q:
        for k in range(0, m + extra + 1):
            hs.append(Harness('line:%s+%d' % (prefix.decode(), k), _h_line(prefix, k),
                              {'prefix': prefix.decode(), 'symbolic_bytes': k},
                              replay='line', fuel=40 * (len(prefix) + k + 4), task_budget=120))
    # a symbolic charset name followed by a string-valued key
    for k in range(1, (3 if q else 6) + 1):
        hs.append(Harness('line:a SEARCH CHARSET +%d+ SUBJECT x' % k,
                          _h_line(b'a SEARCH CHARSET ', k, suffix=b' SUBJECT x\r\n'),
                          {'prefix': 'a SEARCH CHARSET ', 'symbolic_bytes': k, 'suffix': ' SUBJECT x'},
                          replay='line', fuel=2000, task_budget=120))
    # literal+ : arbitrary payload bytes (LF allowed inside the literal)
    for k in range(0, (2 if q else 3) + 1):
        hs.append(Harness('line:a SELECT {%d+}+payload' % k,
                          _h_line(b'a SELECT {%d+}\r\n' % k, 0, suffix=b'', literal=k) if False else
                          _h_litplus(k), {'literal_plus': k}, replay='line', fuel=400, task_budget=120))
    for n in range(0, (6 if q else 7) + 1):
        hs.append(Harness('idle_done[len=%d]' % n, _h_idle_done(n), {'len': n}, replay='idle'))
    from checks import c06_conn
    if not _cg:
        _cg.update(c06_conn.bindings())
        from checks import _sim
        _cg['_sim'] = _sim
    for nsym in ([4] if q else [4, 5]):
        hs.append(Harness('conn:bad_limit[lines=7,sym=%d]' % nsym, c06_conn.h_bad_limit(_cg, 7, nsym),
                          {'lines': 7, 'symbolic_line': 'a + %d bytes at any position' % nsym}, replay='badlimit',
                          task_budget=60))
    for n in range(0, (3 if q else 4) + 1):
        hs.append(Harness('conn:auth_plain[raw=%d]' % n, c06_conn.h_auth_plain(_cg, n), {'decoded_bytes': n},
                          replay='authplain', task_budget=60))
    for wi in range(len(c06_conn.NEST)):
        for depth in ([4000] if q else [400, 1500, 4000, 12000]):
            hs.append(Harness('conn:nesting[%s x%d]' % ((c06_conn.NEST[wi][0] + c06_conn.NEST[wi][1]).decode().strip(), depth),
                              c06_conn.h_nesting(_cg, wi, depth, 1 if q else 2),
                              {'construct': c06_conn.NEST[wi][1].decode(), 'depth': depth, 'symbolic_tail': 1 if q else 2},
                              replay='nesting', task_budget=120))
    for n in range(0, (4 if q else 6) + 1):
        hs.append(Harness('conn:idle_continuation[len=%d]' % n, c06_conn.h_idle_line(_cg, n), {'line_len': n, 'bytes': 'any but LF'},
                          replay='idleline', task_budget=60))
    hs.append(Harness('conn:digit_runs[5000]', c06_conn.h_digit_runs(_cg, 5000),
                      {'lines': len(c06_conn.DIGIT_LINES), 'digits': 5000, 'symbolic': 'one digit of the run'},
                      replay='digitruns', task_budget=60, fuel=2000000))
    for n in ([1, 2] if q else [1, 2, 3]):
        hs.append(Harness('conn:search_strings[len=%d]' % n, c06_conn.h_search_strings(_cg, n),
                          {'keys': [k.decode() for k in c06_conn.SEARCH_STRING_KEYS], 'charset': 'UTF-8', 'string_bytes': n,
                           'executed': 'against a mailbox holding one message'}, replay='searchstrings', task_budget=60))
    for kind in range(len(c06_conn.DEEP)):
        for depth in ([700 if kind == 2 else 4000] if q else ([300, 700] if kind == 2 else [300, 1500, 4000, 12000])):
            hs.append(Harness('conn:deep_message[%s x%d]' % (c06_conn.DEEP[kind], depth), c06_conn.h_deep(_cg, kind, depth, 0 if kind == 2 else 1),
                              {'construct': c06_conn.DEEP[kind], 'depth': depth, 'symbolic_body_bytes': 0 if kind == 2 else 1,
                               'then': 'FETCH every attribute, SEARCH every header/date/text key'}, replay='deepmsg',
                              task_budget=120, fuel=6000000))
    for nh in ([1] if q else [1, 2]):
        hs.append(Harness('conn:message_headers[%d]' % nh, c06_conn.h_headers(_cg, nh),
                          {'headers_per_message': nh, 'header_names': len(c06_conn.HDR_NAMES),
                           'values': '%d representatives of the email package\'s outcome classes' % len(c06_conn.HDR_VALUES),
                           'then': 'FETCH every attribute, SEARCH every header/date/text key'}, replay='msgheaders',
                          task_budget=120))
    hs.append(Harness('seqset_work_bound', _h_seqset_work(),
                      {'numbers': '1..2^32-1 (symbolic) or *', 'max_value': '0..2^32-1 (symbolic)',
                       'shapes': ['n', '*', 'a:b', 'a:*', '*:b']}, replay='seqwork'))
    hs.append(Harness('sieve:digit_runs[5000]', _h_sieve_digits(5000), {'digits': 5000, 'lines': [x.decode() for x in SIEVE_DIGIT_LINES]},
                      replay='sieve', fuel=2000000, task_budget=60))
    for prefix, m in SIEVE_Q:
        for k in range(0, m + extra + 1):
            hs.append(Harness('sieve:%s+%d' % (prefix.decode(), k), _h_sieve(prefix, k),
                              {'prefix': prefix.decode(), 'symbolic_bytes': k},
                              replay='sieve', fuel=40 * (len(prefix) + k + 4), task_budget=120))
    return hs


def seqset_work(g, left, right, max_value):
    """the work a sequence-set element causes is bounded by the mailbox, not by the numbers the client wrote.
    left/right: int | '*' ; returns (size, start, stop)"""
    SS = g['spec'].SequenceSet
    mx = SS._max
    conv = lambda x: mx if isinstance(x, str) else x  # noqa: E731
    elem = conv(left) if right is None else (conv(left), conv(right))
    r = SS._get_range(elem, max_value)
    if isinstance(r, tuple) and len(r) == 0:
        return 0, None, None
    return r.stop - r.start, r.start, r.stop


def _h_seqset_work():
    def fn(eng):
        from pysymex import Outcome, B, AND, IMPLIES
        shape = eng.choose('shape', 5)     # n | * | a:b | a:* | *:b
        big = 2 ** 32 - 1
        a = eng.fresh_int('a', 1, big)
        b = eng.fresh_int('b', 1, big)
        mv = eng.fresh_int('max_value', 0, big)
        left, right = [(a, None), ('*', None), (a, b), (a, '*'), ('*', b)][shape]
        wit = lambda m: {'left': left if isinstance(left, str) else left.eval(m),  # noqa: E731
                         'right': None if right is None else (right if isinstance(right, str) else right.eval(m)),
                         'max_value': mv.eval(m)}
        size, start, stop = seqset_work(_g, left, right, mv)
        if start is None:
            return Outcome(True, witness=wit, site='empty')
        ok = AND(B(size <= mv) | B(size <= 1), IMPLIES(B(size > 0), AND(B(start >= 0), B(stop - 1 <= mv) | B(mv == 0))))
        return Outcome(ok, witness=wit, site='range', info='range of client-chosen size')
    return fn


def _h_litplus(k):
    def fn(eng):
        from pysymex import fresh_bytes, SymBytes, Outcome, FuelExhausted
        payload = fresh_bytes(eng, 'p', k)
        items = list(b'a SELECT {%d+}\r\n' % k) + payload.items + list(b'\r\n')
        buf = SymBytes(items, 'memoryview')
        wit = lambda mdl: {'line': bytes(buf.eval(mdl)).hex()}  # noqa: E731
        try:
            kind, detail = _outcome(_g, lambda: _call_commands(_g, buf, None), len(items) + 8)
        except FuelExhausted as exc:
            return Outcome(False, witness=wit, site='hang', info=str(exc))
        if kind == 'escape':
            return Outcome(False, witness=wit, site='escape', info=detail)
        return Outcome(True, witness=wit, site=kind)
    return fn


# ---------------------------------------------------------------- replay
class _Alarm(BaseException):
    pass


def _with_alarm(fn, seconds=1.0):
    import signal

    def handler(signum, frame):
        raise _Alarm()
    old = signal.signal(signal.SIGVTALRM, handler)
    signal.setitimer(signal.ITIMER_VIRTUAL, seconds)
    try:
        return fn()
    finally:
        signal.setitimer(signal.ITIMER_VIRTUAL, 0)
        signal.signal(signal.SIGVTALRM, old)


def replay(harness, w):
    if harness in ('badlimit', 'authplain', 'nesting', 'msgheaders', 'deepmsg', 'digitruns', 'searchstrings', 'idleline'):
        from checks import c06_conn
        return c06_conn.replay(harness, w)
    from pymap.parsing import Params
    from pymap.parsing.state import ParsingState, ParsingInterrupt, ExpectContinuation
    from pymap.parsing.exceptions import NotParseable
    from pymap.parsing.commands import Commands
    import pymap.parsing.primitives as prim
    import pymap.parsing.specials as spec
    from pymap.parsing.command.select import IdleCommand
    import pymap.sieve.manage.command as sieve_cmd
    g = dict(locals())
    cq = [bytes.fromhex(x) for x in w.get('conts', [])]
    follow = lambda k: memoryview(cq.pop(0)) if cq else memoryview(b'\x00' * k + b'\r\n')  # noqa: E731
    if harness == 'unit':
        buf = bytes.fromhex(w['buf'])
        call = lambda: _call_unit(g, w['unit'], memoryview(buf), follow)  # noqa: E731
    elif harness == 'line':
        buf = bytes.fromhex(w['line'])
        call = lambda: _call_commands(g, memoryview(buf), follow)  # noqa: E731
    elif harness == 'sieve':
        buf = bytes.fromhex(w['sieve'])
        call = lambda: sieve_cmd.Command.parse(memoryview(buf), Params())  # noqa: E731
    elif harness == 'seqwork':
        size, start, stop = seqset_work(g, w['left'], w['right'], w['max_value'])
        bad = start is not None and not (size <= max(1, w['max_value']) and (size <= 0 or stop - 1 <= max(w['max_value'], 0)
                                                                                 or w['max_value'] == 0))
        return {'violates': bad, 'detail': 'element %r:%r with %d messages expands to %d numbers'
                % (w['left'], w['right'], w['max_value'], size), 'category': 'seqset work'}
    elif harness == 'idle':
        buf = bytes.fromhex(w['done'])
        cmd = IdleCommand(b'a')
        try:
            ok, rest = cmd.parse_done(memoryview(buf))
        except NotParseable:
            return {'violates': False}
        line = buf[:len(buf) - len(rest)]
        body = line[:-2] if line.endswith(b'\r\n') else line[:-1]
        bad = ok != (body.upper() == b'DONE')
        return {'violates': bad, 'detail': 'parse_done(%r) -> %r' % (buf, ok)}
    try:
        kind, detail = _with_alarm(lambda: _outcome(g, call, len(buf) + 8))
    except _Alarm:
        return {'violates': True, 'detail': 'no answer within 1 s of CPU time (hang) on %r' % buf, 'kind': 'hang',
                'category': 'hang'}
    return {'violates': kind == 'escape', 'detail': '%r -> %s %s' % (buf, kind, detail), 'kind': kind,
            'category': (detail or '').split(':')[0] + ':' + (detail or ':').split(':')[1] if kind == 'escape' else kind}


def classify(harness, w, res):
    if harness == 'msgheaders' and 'NotImplementedError' in str(res.get('detail')):
        from checks import c06_conn
        cte = c06_conn.HDR_NAMES.index(b'Content-Transfer-Encoding')
        if any(h == cte for h, _ in w.get('picks', [])):
            return 'C06-unknown-cte-binary'
    if harness == 'msgheaders' and ('Incorrect padding' in str(res.get('detail')) or 'Invalid base64' in str(res.get('detail'))):
        from checks import c06_conn
        cte = c06_conn.HDR_NAMES.index(b'Content-Transfer-Encoding')
        b64 = c06_conn.HDR_VALUES.index(b'base64')
        if any(h == cte and v == b64 for h, v in w.get('picks', [])):
            return 'C06-binary-decode-error'
    return None

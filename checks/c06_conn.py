"""C06, connection-level obligations (real IMAPConnection.run on a scripted transport):

* bad_limit: a run of command lines, one of them symbolic; whenever the server
  stops reading while the client still had lines to send (it closed on its own),
  the last thing it wrote is a BYE.
* auth_plain: AUTHENTICATE PLAIN followed by the base64 of symbolic bytes: the
  command gets a tagged answer, never an internal-error BYE.
* deep nesting: command lines with N (hundreds to thousands, concrete) nested
  constructs -- "(", "NOT ", "OR " -- followed by symbolic bytes: answered with
  a tagged result, no RecursionError.

No pymap / pysymex imports at module level.
"""
from __future__ import annotations


def bindings():
    from checks import _sim
    g = _sim.bindings()
    from pymap.imap import IMAPConnection
    from pymap.backend.dict import Login
    from pymap.user import UserMetadata
    from pymap.context import subsystem, connection_exit
    g.update(locals())
    return g


def run_lines(g, sim, conn_mod, feed, mk=bytes):
    """returns (output items, leftover feed entries, exception)"""
    cfg = sim.make_config(g)
    login = g['Login'](cfg)
    login.users_dict['testuser'] = g['UserMetadata'](cfg, 'testuser', password=cfg.hash_context.hash('testpass'))
    tr, state, exc = conn_mod.run_imap(g, login, cfg, list(feed), local=True)
    return tr.output(), len(tr.feed), exc


def conc(items):
    return bytes(x if isinstance(x, int) else 63 for x in items)


def verdict(out_items, leftover, exc, tags):
    """the C06 oracle on what the transport saw"""
    out = conc(out_items)
    if exc is not None:
        try:
            text = str(exc)[:80]
        except TypeError:         # the message holds symbolic text
            text = ''
        return 'the connection task ended with %s: %s' % (type(exc).__name__, text)
    if b'[SERVERBUG]' in out:
        return 'internal-error BYE'
    lines = out.split(b'\r\n')
    last = [ln for ln in lines if ln][-1] if any(lines) else b''
    said_bye = any(ln.startswith(b'* BYE') for ln in lines)
    if leftover > 0 and not said_bye:
        return 'the server closed the connection (%d client lines unread) without saying BYE; last line %r' % (leftover, last[:60])
    if leftover == 0:
        for t in tags:
            if not any(ln.startswith(t + b' OK') or ln.startswith(t + b' NO') or ln.startswith(t + b' BAD') for ln in lines):
                if not said_bye:
                    return 'command %r got no tagged completion' % t
    return None


# ------------------------------------------------------------------ bad command limit
def bad_limit_scenario(g, sim, conn_mod, pos, line, nlines, mk=bytes):
    feed = []
    tags = []
    for i in range(nlines):
        if i == pos:
            feed.append(line)
        else:
            feed.append(b't%d\r\n' % i)       # a tag and nothing else: BAD
    out, leftover, exc = run_lines(g, sim, conn_mod, feed)
    return verdict(out, leftover, exc, tags)


def h_bad_limit(g_ref, nlines, nsym):
    def fn(eng):
        from pysymex import fresh_bytes, SymBytes, Outcome
        from checks import _conn
        g = g_ref
        pos = eng.choose('pos', nlines)
        body = fresh_bytes(eng, 'b', nsym)
        for c in body.items:
            eng.add(c.t != 10)
        for k in (1, 2):       # a line announcing a non-synchronising literal swallows the next line: not this obligation
            if nsym >= k + 1:
                eng.add((body.items[nsym - k].t != 0x7d) | (body.items[nsym - k - 1].t != 0x2b))
        line = SymBytes(list(b'a ') + body.items + [13, 10], 'bytes')
        wit = lambda m: {'pos': pos, 'line': bytes(line.eval(m)).hex(), 'nlines': nlines}  # noqa: E731
        err = bad_limit_scenario(g, g['_sim'], _conn, pos, line, nlines)
        return Outcome(err is None, witness=wit, info=err)
    return fn


# ------------------------------------------------------------------ AUTHENTICATE PLAIN
def auth_plain_scenario(g, sim, conn_mod, b64line):
    out, leftover, exc = run_lines(g, sim, conn_mod, [b'a AUTHENTICATE PLAIN\r\n', b64line, b'n NOOP\r\n'])
    return verdict(out, leftover, exc, [b'a', b'n'])


def h_auth_plain(g_ref, n):
    def fn(eng):
        from pysymex import fresh_bytes, SymBytes, Outcome
        from pysymex.codecs7 import b64encode_items
        from checks import _conn
        g = g_ref
        raw = fresh_bytes(eng, 'r', n)
        enc = b64encode_items(raw.items)
        line = SymBytes(list(enc) + [13, 10], 'bytes')
        wit = lambda m: {'raw': bytes(raw.eval(m)).hex()}  # noqa: E731
        err = auth_plain_scenario(g, g['_sim'], _conn, line)
        return Outcome(err is None, witness=wit, info=err)
    return fn


# ------------------------------------------------------------------ deep nesting
NEST = [(b's SEARCH ', b'(', b')'), (b's SEARCH ', b'NOT ', b''), (b's SEARCH ', b'OR ', b''),
        (b's SELECT INBOX ', b'(', b')'), (b's FETCH 1 ', b'(', b')'), (b's LIST ', b'(', b')'),
        (b's UID SEARCH CHARSET UTF-8 ', b'(', b')')]


def nesting_scenario(g, sim, conn_mod, which, depth, tail, mk=bytes):
    prefix, unit, closer = NEST[which]
    line = prefix + unit * depth
    if isinstance(tail, (bytes, bytearray)):
        line = line + bytes(tail) + b'\r\n'
    else:
        line = mk(list(line) + list(tail) + [13, 10])
    out, leftover, exc = run_lines(g, sim, conn_mod, [b'l LOGIN testuser testpass\r\n', b'x SELECT INBOX\r\n', line,
                                                      b'n NOOP\r\n'])
    return verdict(out, leftover, exc, [b's', b'n'])


def h_nesting(g_ref, which, depth, nsym):
    def fn(eng):
        from pysymex import fresh_bytes, SymBytes, Outcome
        from checks import _conn
        g = g_ref
        body = fresh_bytes(eng, 't', nsym)
        for c in body.items:
            eng.add(c.t != 10)
        for k in (1, 2):
            if nsym >= k + 1:
                eng.add((body.items[nsym - k].t != 0x7d) | (body.items[nsym - k - 1].t != 0x2b))
        wit = lambda m: {'which': which, 'depth': depth, 'tail': bytes(body.eval(m)).hex()}  # noqa: E731
        err = nesting_scenario(g, g['_sim'], _conn, which, depth, body.items, lambda items: SymBytes(items, 'bytes'))
        return Outcome(err is None, witness=wit, info=err)
    return fn


# ------------------------------------------------------------------ continuation data of IDLE
def idle_line_scenario(g, sim, conn_mod, line_items, mk=bytes):
    """IDLE, then an arbitrary line where DONE is expected (any bytes but LF, then LF), then NOOP: IDLE gets its tagged
    result (OK for DONE, BAD otherwise - which of the two is C16's business) and the next command is served"""
    line = mk(list(line_items) + [10]) if not isinstance(line_items, (bytes, bytearray)) else bytes(line_items) + b'\n'
    out, leftover, exc = run_lines(g, sim, conn_mod, [b'l LOGIN testuser testpass\r\n', b's SELECT INBOX\r\n', b'i IDLE\r\n',
                                                      line, b'n NOOP\r\n'])
    return verdict(out, leftover, exc, [b's', b'i', b'n'])


def h_idle_line(g_ref, n):
    def fn(eng):
        from pysymex import fresh_bytes, SymBytes, Outcome
        from checks import _conn
        body = fresh_bytes(eng, 'b', n)
        for c in body.items:
            eng.add(c.t != 10)
        # a line that itself announces a non-synchronizing literal ("...{n+}") makes the reader take the following
        # bytes as that literal: the NOOP line is then part of this line, which is not the subject here
        for k in (1, 2):
            if n >= k + 1:
                eng.add((body.items[n - k].t != 0x7d) | (body.items[n - k - 1].t != 0x2b))
        wit = lambda m: {'line': bytes(body.eval(m)).hex()}  # noqa: E731
        err = idle_line_scenario(g_ref, g_ref['_sim'], _conn, body.items, lambda items: SymBytes(items, 'bytes'))
        return Outcome(err is None, witness=wit, info=err)
    return fn


# ------------------------------------------------------------------ stored message headers
# The header text itself is parsed by the standard library's email package, which the engine does not encode.  Its
# observable contract towards pymap is: a header object, a header object with degenerate attributes (Date without a
# datetime), or an exception (malformed address lists make it raise IndexError / AttributeError / ValueError).  Each
# entry below is a concrete representative of one of these classes; which header gets which value is drawn by the engine.
HDR_NAMES = [b'Date', b'From', b'Sender', b'Reply-To', b'To', b'Cc', b'Bcc', b'Subject', b'Message-Id', b'In-Reply-To',
             b'References', b'Content-Type', b'Content-Disposition', b'Content-Transfer-Encoding', b'Content-Language',
             b'Content-Location', b'Content-Id', b'Content-Description', b'MIME-Version']
HDR_VALUES = [b'', b'x', b'a@b', b'Mon, 6 Jan 2020 10:00:00 +0100', b'garbage 99', b'<<<>>>,,,"', b'"', b'<', b'"a" <',
              b'a@[', b',', b'(', b'g:;', b'g: a@b, <c@d>;', b' ', b';;;=', b'multipart/mixed', b'message/rfc822',
              b'text/plain; charset*=utf-8\'\'%ff', b'=?utf-8?q?=ff?=', b'\xff\xfe', b're: re: [x] fwd: y',
              b'multipart/mixed; boundary=b', b'base64', b'quoted-printable']
# bodies: plain, multipart with an empty part / with an empty and a non-empty part, bad base64 padding, bad quoted-printable
BODIES = [b'x', b'--b\r\n--b--\r\n', b'--b\r\n--b\r\n\r\nx\r\n--b--\r\n', b'abc', b'=ZZ=', b'']
FETCH_ALL = (b'(ENVELOPE BODYSTRUCTURE BODY RFC822.SIZE INTERNALDATE RFC822.HEADER BODY[1] BODY[1.MIME] '
             b'BODY[HEADER.FIELDS (to)] BODY[TEXT] BINARY.SIZE[1] BINARY.PEEK[1] BODY[2] EMAILID THREADID)')
SEARCH_ALL = b'SENTBEFORE 1-Jan-2020 SENTON 6-Jan-2020 FROM x TO y CC z BCC w HEADER sender a SUBJECT s BODY b TEXT t'


def headers_scenario(g, sim, conn_mod, picks, body=b'x'):
    if isinstance(body, int):
        body = BODIES[body]
    msg = b''.join(HDR_NAMES[h] + b': ' + HDR_VALUES[v] + b'\r\n' for h, v in picks) + b'\r\n' + body
    feed = [b'l LOGIN testuser testpass\r\n', b'a APPEND INBOX {%d+}\r\n' % len(msg) + msg + b'\r\n', b's SELECT INBOX\r\n',
            b'f FETCH * ' + FETCH_ALL + b'\r\n', b'q SEARCH ' + SEARCH_ALL + b'\r\n', b'n NOOP\r\n']
    out, leftover, exc = run_lines(g, sim, conn_mod, feed)
    return verdict(out, leftover, exc, [b'a', b's', b'f', b'q', b'n'])


def h_headers(g_ref, nheaders):
    def fn(eng):
        from pysymex import Outcome
        from checks import _conn
        g = g_ref
        picks = []
        last = -1
        for i in range(nheaders):
            h = eng.choose('h%d' % i, len(HDR_NAMES))
            if h <= last and nheaders > 1:
                return Outcome(True, witness=lambda m: {'picks': []}, site='symmetric')
            last = h
            picks.append((h, eng.choose('v%d' % i, len(HDR_VALUES))))
        # the body shape matters for the headers that decide how the body is read
        shaped = any(HDR_NAMES[h] in (b'Content-Type', b'Content-Transfer-Encoding') for h, _ in picks)
        body = eng.choose('body', len(BODIES)) if shaped else 0
        err = headers_scenario(g, g['_sim'], _conn, picks, body)
        return Outcome(err is None, witness=lambda m: {'picks': picks, 'body': body}, info=err)
    return fn


# ------------------------------------------------------------------ very long digit runs / search strings that get executed
DIGIT_LINES = [b'k LOGIN {%D+}', b'k LOGIN {%D}', b'k SEARCH LARGER %D', b'k FETCH %D FLAGS', b'k UID FETCH 1:%D FLAGS',
               b'k FETCH 1 BODY[]<%D.1>', b'k FETCH 1 BODY[]<1.%D>', b'k FETCH 1 BODY[%D]', b'k APPEND INBOX {%D}',
               b'k APPEND INBOX {%D+}', b'k SEARCH ON 1-Jan-%D', b'k STORE %D +FLAGS (\\Seen)', b'k UID EXPUNGE %D',
               b'k STATUS INBOX (MESSAGES) %D', b'k SEARCH UID %D:*', b'k COPY 1:%D INBOX']
# (BODY / TEXT build a regular expression from the string: re.escape of symbolic bytes is not modelled - outside)
SEARCH_STRING_KEYS = [b'HEADER "%S" x', b'HEADER to "%S"', b'SUBJECT "%S"', b'FROM "%S"', b'KEYWORD "%S"',
                      b'CC "%S"', b'BCC "%S"', b'TO "%S"', b'UNKEYWORD "%S"']


def executed_line_scenario(g, sim, conn_mod, line_items, mk=bytes):
    msg = b'To: a\r\nSubject: b\r\n\r\nx'
    line = mk(list(line_items)) if not isinstance(line_items, (bytes, bytearray)) else bytes(line_items)
    feed = [b'l LOGIN testuser testpass\r\n', b'a APPEND INBOX {%d+}\r\n' % len(msg) + msg + b'\r\n', b's SELECT INBOX\r\n',
            line, b'n NOOP\r\n']
    out, leftover, exc = run_lines(g, sim, conn_mod, feed)
    return verdict(out, leftover, exc, [b'n'])


def h_digit_runs(g_ref, ndigits):
    def fn(eng):
        from pysymex import fresh_bytes, SymBytes, Outcome
        from checks import _conn
        which = eng.choose('line', len(DIGIT_LINES))
        # the run itself is concrete: the engine's regular-expression matcher recurses per character and cannot take
        # thousands of them (a symbolic digit inside the run made the two executions diverge)
        pre, _, post = DIGIT_LINES[which].partition(b'%D')
        items = pre + b'1' * ndigits + post + b'\r\n'
        wit = lambda m: {'line': which, 'ndigits': ndigits, 'd': '31'}  # noqa: E731
        err = executed_line_scenario(g_ref, g_ref['_sim'], _conn, items)
        return Outcome(err is None, witness=wit, info=err)
    return fn


def h_search_strings(g_ref, n):
    def fn(eng):
        from pysymex import fresh_bytes, SymBytes, Outcome
        from checks import _conn
        which = eng.choose('key', len(SEARCH_STRING_KEYS))
        sbytes = fresh_bytes(eng, 's', n)
        for c in sbytes.items:      # quoted-string content
            eng.add((c.t != 34) & (c.t != 92) & (c.t != 13) & (c.t != 10) & (c.t != 0))
        pre, _, post = SEARCH_STRING_KEYS[which].partition(b'%S')
        items = list(b'k SEARCH CHARSET UTF-8 ') + list(pre) + sbytes.items + list(post) + [13, 10]
        wit = lambda m: {'key': which, 's': bytes(sbytes.eval(m)).hex()}  # noqa: E731
        err = executed_line_scenario(g_ref, g_ref['_sim'], _conn, items, lambda it: SymBytes(it, 'bytes'))
        return Outcome(err is None, witness=wit, info=err)
    return fn


# ------------------------------------------------------------------ deeply nested stored messages
DEEP = ['subject re:', 'subject [tag]', 'multipart', 'message/rfc822']


def deep_message(kind, depth, tail):
    """message bytes (list of items) with `depth` nested constructs and `tail` (items) as innermost body"""
    if kind == 0:
        return list(b'Subject: ' + b're: ' * depth + b'x\r\n\r\n') + list(tail)
    if kind == 1:
        return list(b'Subject: ' + b'[a] ' * depth + b'x\r\n\r\n') + list(tail)
    if kind == 2:
        m = b''.join(b'Content-Type: multipart/mixed; boundary=b%d\r\n\r\n--b%d\r\n' % (i, i) for i in range(depth))
        end = b''.join(b'--b%d--\r\n' % i for i in reversed(range(depth)))
        return list(m + b'\r\n') + list(tail) + list(b'\r\n' + end)
    return list(b'Content-Type: message/rfc822\r\n\r\n' * depth + b'\r\n') + list(tail)


def deep_scenario(g, sim, conn_mod, kind, depth, tail, mk=bytes):
    msg = deep_message(kind, depth, tail)
    head = list(b'a APPEND INBOX {%d+}\r\n' % len(msg))
    line = mk(head + msg + [13, 10])
    feed = [b'l LOGIN testuser testpass\r\n', line, b's SELECT INBOX\r\n', b'f FETCH * ' + FETCH_ALL + b'\r\n',
            b'q SEARCH ' + SEARCH_ALL + b'\r\n', b'n NOOP\r\n']
    out, leftover, exc = run_lines(g, sim, conn_mod, feed)
    return verdict(out, leftover, exc, [b'a', b's', b'f', b'q', b'n'])


def h_deep(g_ref, kind, depth, nsym):
    def fn(eng):
        from pysymex import fresh_bytes, SymBytes, Outcome
        from checks import _conn
        body = fresh_bytes(eng, 't', nsym)
        wit = lambda m: {'kind': kind, 'depth': depth, 'tail': bytes(body.eval(m)).hex()}  # noqa: E731
        err = deep_scenario(g_ref, g_ref['_sim'], _conn, kind, depth, body.items, lambda items: SymBytes(items, 'bytes'))
        return Outcome(err is None, witness=wit, info=err)
    return fn


def replay(harness, w):
    if harness in ('digitruns', 'searchstrings'):
        from checks import _sim, _conn
        if harness == 'digitruns':
            pre, _, post = DIGIT_LINES[w['line']].partition(b'%D')
            line = pre + b'1' * (w['ndigits'] - 1) + bytes.fromhex(w['d']) + post + b'\r\n'
        else:
            pre, _, post = SEARCH_STRING_KEYS[w['key']].partition(b'%S')
            line = b'k SEARCH CHARSET UTF-8 ' + pre + bytes.fromhex(w['s']) + post + b'\r\n'
        err = executed_line_scenario(bindings(), _sim, _conn, line)
        return {'violates': err is not None, 'detail': err, 'category': (err or '')[:70]}
    if harness == 'deepmsg':
        from checks import _sim, _conn
        err = deep_scenario(bindings(), _sim, _conn, w['kind'], w['depth'], bytes.fromhex(w['tail']))
        return {'violates': err is not None, 'detail': err, 'category': (err or '')[:70]}
    if harness == 'idleline':
        from checks import _sim, _conn
        err = idle_line_scenario(bindings(), _sim, _conn, bytes.fromhex(w['line']))
        return {'violates': err is not None, 'detail': err, 'category': (err or '')[:70]}
    if harness == 'msgheaders':
        from checks import _sim, _conn
        err = headers_scenario(bindings(), _sim, _conn, [tuple(x) for x in w['picks']], w.get('body', 0))
        return {'violates': err is not None, 'detail': err, 'category': (err or '')[:70]}
    from checks import _sim, _conn
    g = bindings()
    if harness == 'badlimit':
        err = bad_limit_scenario(g, _sim, _conn, w['pos'], bytes.fromhex(w['line']), w['nlines'])
    elif harness == 'authplain':
        import base64
        err = auth_plain_scenario(g, _sim, _conn, base64.b64encode(bytes.fromhex(w['raw'])) + b'\r\n')
    else:
        err = nesting_scenario(g, _sim, _conn, w['which'], w['depth'], bytes.fromhex(w['tail']))
    return {'violates': err is not None, 'detail': err, 'category': (err or '')[:70]}

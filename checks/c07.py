"""C07 - every response is well-formed IMAP.

The real serialisers are executed on symbolic client-chosen data (mailbox
names, string values, ID parameters, keywords, tags) and their output bytes are
handed to an independent strict recogniser of the response-grammar fragments
the property names (checks/_rfc.py).
"""
from __future__ import annotations

ID = 'C07'
LEVEL = 'model_checking'
TIME_BUDGET = {'quick': 900, 'thorough': 5400}
EXPLANATION = (
    'Bounded symbolic execution of the real response serialisers: the echoed '
    'datum (bytes or code points) is symbolic, output shape concrete; the '
    'recogniser runs on the symbolic output, forking on every byte class it '
    'inspects, so each path ends with a definite verdict for all data on it.')
FUNCTIONS = [
    'pymap.parsing.primitives:String.build', 'pymap.parsing.primitives:QuotedString.__bytes__',
    'pymap.parsing.primitives:LiteralString.write', 'pymap.parsing.primitives:LiteralString._prefix',
    'pymap.parsing.primitives:List.write', 'pymap.parsing.primitives:List.__bytes__',
    'pymap.parsing.specials.astring:AString.__bytes__', 'pymap.parsing.specials.mailbox:Mailbox.__bytes__',
    'pymap.parsing.modutf7:modutf7_encode', 'pymap.parsing.modutf7:_modified_b64encode',
    'pymap.parsing.response:Response.write', 'pymap.parsing.response:Response.text',
    'pymap.parsing.response.specials:ListResponse.text', 'pymap.parsing.response.specials:StatusResponse.text',
    'pymap.parsing.response.specials:IdResponse.text', 'pymap.parsing.response.specials:FlagsResponse.text',
    'pymap.parsing.response.specials:FetchResponse.write', 'pymap.parsing.response.specials:SearchResponse.text',
    'pymap.parsing.response.fetch:_AddressList._parse', 'pymap.parsing.response.fetch:_ParamsList._value',
    'pymap.parsing.commands:InvalidCommand.message', 'pymap.imap.state:ConnectionState.do_command',
    'pymap.parsing.response.fetch:EnvelopeStructure._value', 'pymap.parsing.response.fetch:_AddressList._value',
    'pymap.parsing.response.fetch:MultipartBodyStructure.extended', 'pymap.parsing.response.fetch:TextBodyStructure.extended',
    'pymap.parsing.response.fetch:ContentBodyStructure.extended', 'pymap.parsing.response.fetch:MessageBodyStructure.extended',
    'pymap.parsing.response.fetch:_Disposition._value', 'pymap.message:BaseLoadedMessage._get_body_structure',
    'pymap.message:BaseLoadedMessage._get_envelope_structure',
]
ASSUMPTIONS = [
    'datum length <= bound; code points up to U+10FFFF',
    'the property\'s own list is checked: CRLF only at line end, literal count == bytes that follow, quoted '
    'strings free of CR/LF/NUL and unescaped quote/backslash, balanced lists; 8-bit bytes inside quoted '
    'strings are not flagged (the statement does not list them)',
]
STUBS = ['email Address objects are duck-typed stand-ins carrying symbolic str attributes',
         'UTF-7 / UTF-16-BE / base64 codecs: exact models (pysymex.codecs7)']
OUTSIDE = ['whole-session byte streams', 'header texts outside the stated vocabulary (the email package parses them; '
           'fetch_structures enumerates a vocabulary, it does not quantify over all header bytes)']

_g: dict = {}


def setup() -> None:
    from pysymex import symbytes
    symbytes.SymBytes.HASH_OK = True
    symbytes.SymStr.HASH_OK = True
    from pymap.parsing import Params
    from pymap.parsing.exceptions import NotParseable
    from pymap.parsing.primitives import String, QuotedString, LiteralString, List, Nil, Number
    from pymap.parsing.specials import AString, Mailbox, Flag, Tag, StatusAttribute
    from pymap.parsing.response import ResponseBad, ResponseOk, ResponseNo
    from pymap.parsing.response.specials import ListResponse, LSubResponse, StatusResponse, IdResponse, \
        FlagsResponse, FetchResponse, SearchResponse
    from pymap.parsing.response.fetch import _AddressList, _ParamsList
    from pymap.parsing.commands import Commands
    from pymap.parsing.specials.fetchattr import FetchAttribute, FetchValue
    from pymap.parsing.state import ParsingInterrupt
    from checks import _rfc
    _g.update(locals())


def _items(x):
    from pysymex import items_of
    r = x.__bytes__() if not isinstance(x, (bytes,)) and hasattr(x, '__bytes__') else x
    it = items_of(r)
    return it


def _verdict(fn):
    try:
        fn()
    except _g['_rfc'].Malformed as exc:
        return str(exc)
    return None


def _h_build_bytes(n):
    def fn(eng):
        from pysymex import fresh_bytes, Outcome
        v = fresh_bytes(eng, 'v', n)
        wit = lambda m: {'kind': 'bytes', 'v': bytes(v.eval(m)).hex()}  # noqa: E731
        out = _items(_g['String'].build(v))
        err = _verdict(lambda: _g['_rfc'].check_string(out))
        return Outcome(err is None, witness=wit, info=err)
    return fn


def _h_build_str(n):
    def fn(eng):
        from pysymex import fresh_str, Outcome
        v = fresh_str(eng, 's', n)
        wit = lambda m: {'kind': 'str', 'v': [c for c in v.concrete(m)]}  # noqa: E731
        out = _items(_g['String'].build(v))
        err = _verdict(lambda: _g['_rfc'].check_string(out))
        return Outcome(err is None, witness=wit, info=err)
    return fn


class _Addr:
    def __init__(self, d, u, dom):
        self.display_name, self.username, self.domain = d, u, dom


def _h_address(n):
    def fn(eng):
        from pysymex import fresh_str, Outcome
        d = fresh_str(eng, 'd', n)
        u = fresh_str(eng, 'u', 1)
        wit = lambda m: {'d': d.concrete(m), 'u': u.concrete(m)}  # noqa: E731
        lst = _g['_AddressList']._parse(_Addr(d, u, 'x.org'))
        out = list(b'* 1 FETCH (ENVELOPE ') + _items(lst) + list(b')\r\n')
        err = _verdict(lambda: _g['_rfc'].check_line(out))
        return Outcome(err is None, witness=wit, info=err)
    return fn


def _h_mailbox_line(n, kind):
    def fn(eng):
        from pysymex import fresh_str, Outcome
        s = fresh_str(eng, 's', n)
        for c in s.items:
            # lone surrogates cannot be stored in a mailbox name that came off the wire
            eng.add((c.t < 0xD800) | (c.t > 0xDFFF))
        wit = lambda m: {'kind': kind, 'name': s.concrete(m)}  # noqa: E731
        if kind == 'LIST':
            resp = _g['ListResponse'](s, '/', [b'HasNoChildren'])
        else:
            resp = _g['StatusResponse'](s, {_g['StatusAttribute'](b'MESSAGES'): _g['Number'](3)})
        out = _items(resp)
        err = _verdict(lambda: _g['_rfc'].check_line(out))
        return Outcome(err is None, witness=wit, info=err)
    return fn


def _h_id(n):
    def fn(eng):
        from pysymex import fresh_bytes, Outcome
        k = fresh_bytes(eng, 'k', 1)
        v = fresh_bytes(eng, 'v', n)
        wit = lambda m: {'k': bytes(k.eval(m)).hex(), 'v': bytes(v.eval(m)).hex()}  # noqa: E731
        resp = _g['IdResponse']({k: v})
        out = _items(resp)
        err = _verdict(lambda: _g['_rfc'].check_line(out))
        return Outcome(err is None, witness=wit, info=err)
    return fn


def _h_tagged(n):
    """whatever tag/command word the client sends, the BAD answer is one clean line"""
    def fn(eng):
        from pysymex import fresh_bytes, SymBytes, Outcome
        from checks import _sim
        body = fresh_bytes(eng, 'b', n)
        for c in body.items:
            eng.add(c.t != 10)
        line = SymBytes(body.items + [13, 10], 'memoryview')
        wit = lambda m: {'line': bytes(line.eval(m)).hex()}  # noqa: E731
        cmd, _ = _g['Commands']().parse(line, _g['Params']())
        if type(cmd).__name__ != 'InvalidCommand':
            return Outcome(True, witness=wit, site='valid')
        resp = _g['ResponseBad'](cmd.tag, cmd.message)
        out = _items(resp)
        err = _verdict(lambda: _g['_rfc'].check_line(out, structured=False))
        return Outcome(err is None, witness=wit, info=err, site='bad')
    return fn


def _h_flags(n):
    def fn(eng):
        from pysymex import fresh_bytes, Outcome
        raw = fresh_bytes(eng, 'f', n, 'memoryview')
        wit = lambda m: {'flag': bytes(raw.eval(m)).hex()}  # noqa: E731
        try:
            flag, rest = _g['Flag'].parse(raw, _g['Params']())
        except _g['NotParseable']:
            return Outcome(True, witness=wit, site='rejected')
        if len(rest):
            return Outcome(True, witness=wit, site='partial')
        fv = _g['FetchValue'].of(_g['FetchAttribute'](b'FLAGS'), _g['List']([flag], sort=True))
        resp = _g['FetchResponse'](1, [fv])
        out = _items(resp)
        err = _verdict(lambda: _g['_rfc'].check_line(out))
        if err is None:
            resp2 = _g['FlagsResponse']([flag])
            err = _verdict(lambda: _g['_rfc'].check_line(_items(resp2)))
        return Outcome(err is None, witness=wit, info=err, site='flag')
    return fn


SECTION_PREFIXES = [b'BODY[HEADER.FIELDS (', b'BODY.PEEK[HEADER.FIELDS.NOT (', b'BODY[1.HEADER.FIELDS (']


def fetch_echo(g, raw):
    """the section specifier a client wrote is echoed in the FETCH response: returns the response bytes (or None when
    the attribute does not parse on its own)"""
    try:
        attr, rest = g['FetchAttribute'].parse(raw, g['Params']())
    except g['NotParseable']:
        return None
    if len(rest):
        return None
    fv = g['FetchValue'].of(attr.for_response, g['String'].build(b'x'))
    return g['FetchResponse'](1, [fv])


def _h_fetch_echo(pi, n):
    def fn(eng):
        from pysymex import fresh_bytes, SymBytes, Outcome
        from pysymex.core import Unsupported
        body = fresh_bytes(eng, 'h', n)
        raw = SymBytes(list(SECTION_PREFIXES[pi]) + body.items + list(b')]'), 'memoryview')
        wit = lambda m: {'attr': bytes(raw.eval(m)).hex()}  # noqa: E731
        try:
            resp = fetch_echo(_g, raw)
        except _g['ParsingInterrupt']:
            return Outcome(True, witness=wit, site='literal')
        if resp is None:
            return Outcome(True, witness=wit, site='rejected')
        out = _items(resp)
        err = _verdict(lambda: _g['_rfc'].check_line(out))
        return Outcome(err is None, witness=wit, info=err, site='echo')
    return fn


# ------------------------------------------------------------------ ENVELOPE / BODY / BODYSTRUCTURE of stored messages
# The header text is parsed by the standard library's email package, which the engine does not encode: header values
# and body shapes come from a concrete vocabulary (C06's, plus the forms below), which header gets which value and
# which body follows is drawn by the engine.  The output goes through checks/_rfc_body.py, a recogniser written from
# the ABNF of RFC 3501 section 9 (validated on the RFC's own examples).
STRUCT_VALUES = [b'attachment; filename="a b.txt"', b'inline', b'a@b, c@d', b'undisclosed-recipients:;',
                 b'"X, Y" <x@y>, z@w', b'text/plain; charset="utf-8"; format=flowed', b'en, de',
                 b'multipart/alternative; boundary="b"', b'message/rfc822', b'application/octet-stream; name="x"']
STRUCT_BODIES = [b'', b'x', b'line\r\n', b'--b\r\n--b--\r\n', b'--b\r\n\r\nx\r\n--b--\r\n',
                 b'--b\r\nContent-Disposition: attachment; filename=f\r\n\r\nx\r\n--b\r\n\r\n\r\n--b--\r\n',
                 b'From: \r\nTo: a@b, c@d\r\n\r\ninner']


def struct_scenario(g, sim, conn_mod, picks, body):
    """returns error|None"""
    from checks import c06_conn, _rfc_body
    values = c06_conn.HDR_VALUES + STRUCT_VALUES
    msg = b''.join(c06_conn.HDR_NAMES[h] + b': ' + values[v] + b'\r\n' for h, v in picks) + b'\r\n' + STRUCT_BODIES[body]
    feed = [b'l LOGIN testuser testpass\r\n', b'a APPEND INBOX {%d+}\r\n' % len(msg) + msg + b'\r\n', b's SELECT INBOX\r\n',
            b'f FETCH * (ENVELOPE BODYSTRUCTURE BODY)\r\n']
    out, leftover, exc = c06_conn.run_lines(g, sim, conn_mod, feed)
    out = c06_conn.conc(out)
    if exc is not None or b'f OK' not in out:
        return None         # whether every command is answered is C06's business
    try:
        n = _rfc_body.check_fetch_responses(out)
    except _rfc_body.Malformed as exc2:
        return str(exc2)
    if n != 3:
        return 'expected ENVELOPE, BODYSTRUCTURE and BODY in the response, recognised %d structured values' % n
    return None


def _h_struct(nheaders):
    def fn(eng):
        from pysymex import Outcome
        from checks import _conn, c06_conn
        g = _sg
        nvalues = len(c06_conn.HDR_VALUES) + len(STRUCT_VALUES)
        picks = []
        if nheaders == 2:
            # two headers: Content-Type (it decides how the body is read) next to any other one
            ct = c06_conn.HDR_NAMES.index(b'Content-Type')
            h = eng.choose('h', len(c06_conn.HDR_NAMES) - 1)
            h = h if h < ct else h + 1
            picks = [(ct, eng.choose('v0', nvalues)), (h, eng.choose('v1', nvalues))]
        elif nheaders == 1:
            picks = [(eng.choose('h', len(c06_conn.HDR_NAMES)), eng.choose('v', nvalues))]
        body = eng.choose('body', len(STRUCT_BODIES))
        err = struct_scenario(g, g['_sim'], _conn, picks, body)
        return Outcome(err is None, witness=lambda m: {'picks': picks, 'body': body}, info=err)
    return fn


_sg: dict = {}


def harnesses(tier):
    from pysymex.runner import Harness
    q = tier == 'quick'
    hs = []
    from checks import c06_conn, _sim
    if not _sg:
        _sg.update(c06_conn.bindings())
        _sg['_sim'] = _sim
    for nh in ([0, 1] if q else [0, 1, 2]):
        hs.append(Harness('fetch_structures[headers=%d]' % nh, _h_struct(nh),
                          {'headers': nh, 'header_names': len(c06_conn.HDR_NAMES),
                           'values': len(c06_conn.HDR_VALUES) + len(STRUCT_VALUES), 'bodies': len(STRUCT_BODIES)},
                          replay='struct', task_budget=120))
    for n in range(0, (4 if q else 6) + 1):
        hs.append(Harness('build_bytes[len=%d]' % n, _h_build_bytes(n), {'len': n}, replay='build'))
    for n in range(0, (3 if q else 4) + 1):
        hs.append(Harness('build_str[len=%d]' % n, _h_build_str(n), {'code_points': n}, replay='build'))
    for n in range(0, (2 if q else 3) + 1):
        hs.append(Harness('address[len=%d]' % n, _h_address(n), {'display_name': n}, replay='address'))
    for n in range(0, (2 if q else 3) + 1):
        hs.append(Harness('list_line[len=%d]' % n, _h_mailbox_line(n, 'LIST'), {'name': n}, replay='mailbox'))
        hs.append(Harness('status_line[len=%d]' % n, _h_mailbox_line(n, 'STATUS'), {'name': n}, replay='mailbox'))
    for n in range(0, (3 if q else 5) + 1):
        hs.append(Harness('id_response[len=%d]' % n, _h_id(n), {'value': n}, replay='id'))
    for n in range(0, (4 if q else 5) + 1):
        hs.append(Harness('bad_line[len=%d]' % n, _h_tagged(n), {'line': n}, replay='tagged'))
    for n in range(1, (4 if q else 5) + 1):
        hs.append(Harness('flag_echo[len=%d]' % n, _h_flags(n), {'flag': n}, replay='flags'))
    for pi, pre in enumerate(SECTION_PREFIXES):
        for n in range(1, (4 if tier == 'quick' else 6) + 1):
            if pi and n > (3 if tier == 'quick' else 5):
                continue
            hs.append(Harness('fetch_section_echo[%s+%d]' % (pre.decode(), n), _h_fetch_echo(pi, n),
                              {'prefix': pre.decode(), 'symbolic_bytes': n}, replay='fetchecho', task_budget=120))
    return hs


def replay(harness, w):
    if harness == 'struct':
        from checks import _sim, _conn, c06_conn
        err = struct_scenario(c06_conn.bindings(), _sim, _conn, [tuple(x) for x in w['picks']], w['body'])
        return {'violates': err is not None, 'detail': err, 'category': 'FETCH structure: ' + (err or '').split(' at ')[0][:60]}
    from checks import _rfc
    from pymap.parsing import Params
    from pymap.parsing.exceptions import NotParseable
    from pymap.parsing.primitives import String, List, Number
    from pymap.parsing.specials import Flag, StatusAttribute
    from pymap.parsing.response import ResponseBad
    from pymap.parsing.response.specials import ListResponse, StatusResponse, IdResponse, FlagsResponse, \
        FetchResponse
    from pymap.parsing.response.fetch import _AddressList
    from pymap.parsing.commands import Commands
    from pymap.parsing.specials.fetchattr import FetchAttribute, FetchValue
    err = None
    out = b''
    try:
        if harness == 'build':
            v = bytes.fromhex(w['v']) if w['kind'] == 'bytes' else ''.join(chr(c) for c in w['v'])
            out = bytes(String.build(v))
            _rfc.check_string(list(out))
        elif harness == 'address':
            d = ''.join(chr(c) for c in w['d'])
            u = ''.join(chr(c) for c in w['u'])
            out = b'* 1 FETCH (ENVELOPE ' + bytes(_AddressList._parse(_Addr(d, u, 'x.org'))) + b')\r\n'
            _rfc.check_line(list(out))
        elif harness == 'mailbox':
            s = ''.join(chr(c) for c in w['name'])
            if w['kind'] == 'LIST':
                out = bytes(ListResponse(s, '/', [b'HasNoChildren']))
            else:
                out = bytes(StatusResponse(s, {StatusAttribute(b'MESSAGES'): Number(3)}))
            _rfc.check_line(list(out))
        elif harness == 'id':
            out = bytes(IdResponse({bytes.fromhex(w['k']): bytes.fromhex(w['v'])}))
            _rfc.check_line(list(out))
        elif harness == 'tagged':
            line = bytes.fromhex(w['line'])
            cmd, _ = Commands().parse(memoryview(line), Params())
            if type(cmd).__name__ == 'InvalidCommand':
                out = bytes(ResponseBad(cmd.tag, cmd.message))
                _rfc.check_line(list(out), structured=False)
        elif harness == 'fetchecho':
            from pymap.parsing.state import ParsingInterrupt
            g = {'FetchAttribute': FetchAttribute, 'FetchValue': FetchValue, 'FetchResponse': FetchResponse, 'String': String,
                 'Params': Params, 'NotParseable': NotParseable}
            try:
                resp = fetch_echo(g, memoryview(bytes.fromhex(w['attr'])))
            except ParsingInterrupt:
                resp = None
            if resp is not None:
                out = bytes(resp)
                _rfc.check_line(list(out))
        elif harness == 'flags':
            raw = bytes.fromhex(w['flag'])
            try:
                flag, rest = Flag.parse(memoryview(raw), Params())
            except NotParseable:
                return {'violates': False}
            if not len(rest):
                out = bytes(FetchResponse(1, [FetchValue.of(FetchAttribute(b'FLAGS'), List([flag], sort=True))]))
                _rfc.check_line(list(out))
                out = bytes(FlagsResponse([flag]))
                _rfc.check_line(list(out))
    except _rfc.Malformed as exc:
        err = str(exc)
    return {'violates': err is not None, 'detail': '%r: %s' % (out, err), 'category': err}


def classify(harness, w, res):
    return None

"""C08, two identities in one process: the real maildir MailboxSet of each on one in-memory directory tree.

alice (/m/a) and bob (/m/b) each have a MailboxSet with its own layout object,
as pymap builds them at login.  alice has folder P open (the object is alive)
with one message; bob has folder Q.  bob then names a mailbox with an arbitrary
string of the stated length (every character symbolic) in GET (get_mailbox +
listing), DELETE or RENAME-as-source.

The file system is the directory-aware MemFS of _mdset behind a resolver: each
path an operation touches is
 * checked lexically ('.' and '..' resolved) to lie inside the acting user's
   root (alice's operations: /m/a; bob's: /m/b),
 * normalised (posixpath.normpath semantics, sym-aware port in the loader) and
   matched against the existing entries by symbolic equality (each match is a
   fork), and treated as absent when it equals none.
Oracle: (1) no path outside the acting user's root is touched, (2) whatever
mailbox object bob is handed is not one of alice's live objects, its path lies
inside bob's root, and it lists none of alice's messages, (3) everything under
alice's root is exactly what it was before bob's operation.

No pymap / pysymex imports at module level.
"""
from __future__ import annotations

import posixpath

ROOT_A, ROOT_B = '/m/a', '/m/b'
OPS = ['get', 'delete', 'rename']


class Escape(Exception):
    pass


def _is_plain(p):
    return isinstance(p, str)


def confined(path, root, proper, what):
    comps = path.split('/')
    if not bool(comps[0] == ''):
        raise Escape('%s: relative path' % what)
    stack = []
    for c in comps[1:]:
        if len(c) == 0 or bool(c == '.'):
            continue
        if bool(c == '..'):
            if stack:
                stack.pop()
            continue
        stack.append(c)
    rt = root.split('/')[1:]
    if len(stack) < len(rt):
        raise Escape('%s: path above the user root' % what)
    for a, b in zip(stack, rt):
        if not bool(a == b):
            raise Escape('%s: path outside the user root' % what)
    if proper and len(stack) == len(rt):
        raise Escape('%s: the user root itself' % what)


def _norm(p):
    if _is_plain(p):
        return posixpath.normpath(p)
    from pysymex import loader
    return loader._sym_normpath(p)


class ResolvingFS:
    """every path is confined to self.root, then resolved to the concrete entry it equals (or to an absent path)"""

    def __init__(self, inner):
        self.inner = inner
        self.root = ROOT_A
        self.escapes = []

    def _res(self, op, p, proper=False, create=False):
        try:
            confined(p, self.root, proper, op)
        except Escape as exc:
            self.escapes.append(str(exc))
            raise
        if _is_plain(p):
            return posixpath.normpath(p)
        pn = _norm(p)
        if _is_plain(pn):
            return pn
        known = sorted(set(self.inner.dirs) | set(self.inner.files))
        for q in known:
            if len(q) == len(pn) and bool(pn == q):
                return q
        if create:
            # a new entry inside an existing directory, its last component fixed by the code under test
            for d in sorted(self.inner.dirs, key=len, reverse=True):
                if len(pn) > len(d) + 1 and bool(pn[:len(d) + 1] == d + '/'):
                    rest = pn[len(d) + 1:]
                    if rest.is_concrete():
                        return d + '/' + rest.lower_concrete()
            from pysymex import Unsupported
            raise Unsupported('creating a file system entry with a symbolic name')
        return '/absent/0'

    def path_isdir(self, p): return self.inner.path_isdir(self._res('isdir', p))
    def path_exists(self, p): return self.inner.path_exists(self._res('exists', p))
    def path_isfile(self, p): return self.inner.path_isfile(self._res('isfile', p))
    def listdir(self, p): return self.inner.listdir(self._res('listdir', p))

    def walk(self, p, topdown=True):
        return self.inner.walk(self._res('walk', p, proper=True), topdown)

    def remove(self, p): return self.inner.remove(self._res('remove', p, proper=True))
    def unlink(self, p): return self.inner.unlink(self._res('unlink', p, proper=True))
    def rmdir(self, p): return self.inner.rmdir(self._res('rmdir', p, proper=True))

    def rename(self, a, b):
        return self.inner.rename(self._res('rename-from', a, proper=True), self._res('rename-to', b, proper=True, create=True))

    def stat(self, p): return self.inner.stat(self._res('stat', p))

    def open(self, p, mode='r', *a, **k):
        return self.inner.open(self._res('open', p, proper=True, create=any(c in mode for c in 'wxa')), mode, *a, **k)

    def named_temp(self, mode='w', dir=None, **k):
        from checks.c04_maildir import _Writer
        self.inner.ntemp += 1
        # the control files' temporaries are created next to their target; one created elsewhere is outside every root
        where = self._res('tempfile', dir) if dir is not None else '/tmp'
        return _Writer(self.inner, where + '/t%d' % self.inner.ntemp)

    def maildir(self, path, create=True):
        if create and not _is_plain(path):
            from pysymex import Unsupported
            raise Unsupported('creating a folder with a symbolic name')
        return self.inner.maildir(self._res('Maildir(create=%s)' % create, path), create)

    def __getattr__(self, n):
        return getattr(self.inner, n)


def scenario(g, install, layout_name, op, name, check=None):
    """name: what bob sends (str, or SymStr under the engine).  returns error|None"""
    from checks import _mdset
    from checks.c04_maildir import _Sleep
    import pymap.mailbox as PM
    import pymap.backend.maildir.uidlist as UL
    inner = _mdset.make_dirfs()
    fs = ResolvingFS(inner)
    install(fs, lambda: 0, lambda d: _Sleep(d))
    counter = [0]

    def new_validity():
        counter[0] += 1
        return 1000 + counter[0]

    def new_guid():
        counter[0] += 1
        return b'%032x' % counter[0]
    saved = (PM.MailboxSnapshot.new_uid_validity, UL.UidList._create_guid)
    PM.MailboxSnapshot.new_uid_validity = staticmethod(new_validity)
    UL.UidList._create_guid = staticmethod(new_guid)
    try:
        from pymap.backend.maildir.layout import DefaultLayout, FilesystemLayout
        MSet, AM = g['MaildirMailboxSet'], g['AppendMessage']
        cls = DefaultLayout if layout_name == '++' else FilesystemLayout
        dt = g['datetime']

        def run(co):
            for _ in range(200):
                try:
                    co.send(None)
                except StopIteration as e:
                    return e.value
            raise RuntimeError('operation did not finish')
        sets = {}
        for who, root in (('a', ROOT_A), ('b', ROOT_B)):
            fs.root = root
            inbox = fs.maildir(root, create=True)
            sets[who] = MSet(inbox, cls(root, fs.maildir))
        nmsg = [0]

        async def append(mset, mbname):
            mbx = await mset.get_mailbox(mbname)
            nmsg[0] += 1
            await mbx.append(AM(b'Subject: x\r\n\r\nmessage %d' % nmsg[0], dt.fromtimestamp(5000 + nmsg[0]), frozenset()))
            return mbx

        async def listing(mbx):
            out = []
            async for msg in mbx.messages():
                out.append(int(msg.internal_date.timestamp()))
            return out
        fs.root = ROOT_A
        run(sets['a'].add_mailbox('P'))
        alive = [run(append(sets['a'], 'P')), run(append(sets['a'], 'INBOX'))]     # alice's open folders
        alice_dates = {5001, 5002}
        fs.root = ROOT_B
        run(sets['b'].add_mailbox('Q'))
        alive_b = [run(append(sets['b'], 'Q'))]

        def snap():
            return (sorted(d for d in inner.dirs if d == ROOT_A or d.startswith(ROOT_A + '/')),
                    sorted((f, repr(v)) for f, v in inner.files.items() if f.startswith(ROOT_A + '/')),
                    sorted((p, sorted(s['msgs']), sorted(s['payload'])) for p, s in inner.stores.items()
                           if p == ROOT_A or p.startswith(ROOT_A + '/')))
        before = snap()
        fs.escapes.clear()
        got = None
        try:
            if op == 'get':
                got = run(sets['b'].get_mailbox(name))
            elif op == 'delete':
                run(sets['b'].delete_mailbox(name))
            else:
                run(sets['b'].rename_mailbox(name, 'Z'))
        except Escape as exc:
            return 'bob %s: %s' % (op, exc)
        except (KeyError, ValueError, OSError, g['ResponseError']):
            pass                    # refused
        if fs.escapes:
            return 'bob %s: %s' % (op, fs.escapes[0])
        if got is not None:
            if any(got is x for x in alive):
                return "bob get: handed one of alice's open mailbox objects"
            try:
                confined(got._path, ROOT_B, False, 'the mailbox bob got')
            except Escape as exc:
                return 'bob get: %s' % exc
            try:
                lst = run(listing(got))
            except Escape as exc:
                return 'bob get, listing: %s' % exc
            if set(lst) & alice_dates:
                return "bob get: the mailbox lists alice's messages"
        if fs.escapes:
            return 'bob %s: %s' % (op, fs.escapes[0])
        if snap() != before:
            return "bob %s: alice's tree changed" % op
        del alive_b
        return None
    finally:
        PM.MailboxSnapshot.new_uid_validity, UL.UidList._create_guid = saved
        install(None, None, None)


def harness(g_ref, layout_name, op, n):
    def fn(eng):
        from pysymex import loader, fresh_str, Outcome
        from pysymex.core import SymInt
        SymInt.HASH_OK = True
        name = fresh_str(eng, 'n', n, hi=0x7f)

        def install(fs, clock, sleep):
            loader.FS_HOOK[0] = fs
            loader.ENV_HOOK['clock'] = clock
            loader.ENV_HOOK['sleep'] = sleep
        if op == 'delete' and bool(name == 'INBOX'):
            # DELETE INBOX is answered NO by the connection state (pymap.imap.state do_delete) and never reaches the set
            return Outcome(True, witness=lambda m: {'layout': layout_name, 'op': op, 'name': name.concrete(m)}, site='inbox')
        err = scenario(g_ref, install, layout_name, op, name)
        return Outcome(err is None, witness=lambda m: {'layout': layout_name, 'op': op, 'name': name.concrete(m)}, info=err)
    return fn


def replay(w):
    import sys
    import os as _os
    import types
    import pymap.concurrent as C
    from checks import c04_maildir
    g = c04_maildir.bindings()
    from pymap.backend.maildir.mailbox import MailboxSet as MaildirMailboxSet
    from pymap.exceptions import ResponseError
    g.update(MaildirMailboxSet=MaildirMailboxSet, ResponseError=ResponseError)
    mods = [C] + [m for n, m in sorted(sys.modules.items()) if n.startswith('pymap.backend.maildir') and m is not None]
    saved = {m: (m.__dict__.get('os'), m.__dict__.get('time'), m.__dict__.get('asyncio'), m.__dict__.get('NamedTemporaryFile'))
             for m in mods}

    def install(fs, clock, sleep):
        if fs is None:
            for m, (o, t, a, nt) in saved.items():
                for k, v in (('os', o), ('time', t), ('asyncio', a), ('NamedTemporaryFile', nt)):
                    if v is not None:
                        setattr(m, k, v)
                m.__dict__.pop('open', None)
            return
        pathns = types.SimpleNamespace(**{k: getattr(_os.path, k) for k in dir(_os.path) if not k.startswith('__')})
        pathns.exists = fs.path_exists
        pathns.isdir = fs.path_isdir
        pathns.isfile = fs.path_isfile
        o = types.SimpleNamespace(**{k: getattr(_os, k) for k in ('sep', 'getcwd', 'fspath', 'getpid', 'urandom')})
        o.__dict__.update(stat=fs.stat, unlink=fs.unlink, remove=fs.remove, rename=fs.rename, path=pathns,
                          listdir=fs.listdir, walk=fs.walk, rmdir=fs.rmdir)
        for m in mods:
            if 'os' in m.__dict__:
                m.os = o
            m.open = fs.open
            if 'NamedTemporaryFile' in m.__dict__:
                m.NamedTemporaryFile = fs.named_temp
        C.time = types.SimpleNamespace(time=clock)
        a = types.SimpleNamespace(**{k: v for k, v in vars(saved[C][2]).items() if not k.startswith('__')})
        a.sleep = sleep
        C.asyncio = a
    name = ''.join(chr(c) for c in w['name'])
    if w['op'] == 'delete' and name == 'INBOX':
        return []
    err = scenario(g, install, w['layout'], w['op'], name)
    return [err] if err else []


# ---------------------------------------------------------------- provisioning: one directory per account
class _MemRecords:
    """stands in for the users / passwords / groups files of the maildir backend (their text format is not the subject
    here): records are kept in memory, looked up by symbolic equality of the name"""

    def __init__(self, store, build):
        self.store = store
        self.build_record = build

    def _find(self, name):
        for rec in self.store:
            if len(rec.name) == len(name) and bool(rec.name == name):
                return rec
        return None

    def has(self, name):
        return self._find(name) is not None

    def get(self, name):
        rec = self._find(name)
        if rec is None:
            raise KeyError(name)
        return rec

    def set(self, record):
        old = self._find(record.name)
        if old is not None:
            self.store.remove(old)
        self.store.append(record)

    def remove(self, name):
        old = self._find(name)
        if old is None:
            raise KeyError(name)
        self.store.remove(old)

    def get_user(self, name):
        return frozenset()

    def remove_user(self, name):
        pass

    def merge(self, records):
        for _ in records:
            pass


def _file_stub(store, real):
    class _Ctx:
        async def __aenter__(self):
            return _MemRecords(store, real.build_record)

        async def __aexit__(self, *a):
            return False

    class _File:
        build_record = real.build_record

        @classmethod
        def with_write(cls, base_dir):
            return _Ctx()

        with_read = with_write
    return _File


def provision(g, n1, n2):
    """the real maildir Identity.set() for two accounts whose names differ, default parameters; then the mailbox directory
    each of them is served from (Identity.new_session -> _load_maildir: os.path.join(base_dir, home_dir)).  Two accounts
    never share a directory.  returns (error|None)"""
    import types
    import os.path
    import pymap.backend.maildir as MD
    from pymap.user import UserMetadata
    users, shadows, groups = [], [], []
    saved = (MD.UsersFile, MD.PasswordsFile, MD.GroupsFile)
    MD.UsersFile, MD.PasswordsFile, MD.GroupsFile = (_file_stub(users, saved[0]), _file_stub(shadows, saved[1]),
                                                     _file_stub(groups, saved[2]))
    try:
        import pysasl.prep
        prep = pysasl.prep.saslprep
        if not (isinstance(n1, str) and isinstance(n2, str)):
            from pysymex import loader
            prep = loader._make_prep_facade().saslprep        # what the instrumented modules get for pysasl.prep
        cfg = types.SimpleNamespace(base_dir='/srv/mail', password_prep=prep, layout='++', colon=None,
                                    hash_context=None, cpu_subsystem=None)

        def run(co):
            for _ in range(50):
                try:
                    co.send(None)
                except StopIteration as e:
                    return e.value
            raise RuntimeError('did not finish')
        for name in (n1, n2):
            ident = MD.Identity(cfg, None, name, None, frozenset(['admin']))
            try:
                run(ident.set(UserMetadata(cfg, name, password='pw')))
            except ValueError:
                return None            # a name the backend refuses to provision
        recs = _MemRecords(users, None)
        r1, r2 = recs._find(n1), recs._find(n2)
        if r1 is None or r2 is None or r1 is r2:
            return 'after provisioning two accounts the users file holds %d record(s)' % len(users)
        join = os.path.join
        if not (isinstance(r1.home_dir, str) and isinstance(r2.home_dir, str)):
            from pysymex import loader
            join = loader._sym_path_join          # the port of posixpath.join the instrumented code gets as well
        d1 = join(cfg.base_dir, r1.home_dir)
        d2 = join(cfg.base_dir, r2.home_dir)
        if len(d1) == len(d2) and bool(d1 == d2):
            return 'two accounts are served from one directory'
        return None
    finally:
        MD.UsersFile, MD.PasswordsFile, MD.GroupsFile = saved


def provision_harness(n1len, n2len):
    def fn(eng):
        from pysymex import fresh_str, Outcome
        from pysymex import symbytes
        symbytes.SymStr.HASH_OK = True
        a = fresh_str(eng, 'a', n1len, hi=0x10FFFF)
        b = fresh_str(eng, 'b', n2len, hi=0x10FFFF)
        for c in a.items + b.items:
            eng.add((c.t < 0xD800) | (c.t > 0xDFFF))
            # the administrator's business, not a user's: account names with path syntax
            eng.add((c.t != 0x2f) & (c.t != 0) & (c.t != 0x2e))
        wit = lambda m: {'n1': a.concrete(m), 'n2': b.concrete(m)}  # noqa: E731
        if n1len == n2len and bool(a == b):
            return Outcome(True, witness=wit, site='same name')
        err = provision(None, a, b)
        return Outcome(err is None, witness=wit, info=err)
    return fn


def provision_replay(w):
    n1 = ''.join(chr(c) for c in w['n1'])
    n2 = ''.join(chr(c) for c in w['n2'])
    if n1 == n2:
        return []
    err = provision(None, n1, n2)
    return [err] if err else []

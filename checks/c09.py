"""C09 - authentication and authorisation are sound.

The real ConnectionState._login / do_login / do_authenticate / capability,
dict Login.authenticate / authorize, Identity.get / new_session,
UserMetadata.compare_authcid / compare_secret and pysasl's PlainCredentials
are executed with *symbolic* stored users (name, password, admin role) and
*symbolic* presented credentials (authcid, secret, authzid).  The SASL
mechanism is an environment stub that hands do_authenticate arbitrary
credentials (or none).
"""
from __future__ import annotations

ID = 'C09'
LEVEL = 'model_checking'
TIME_BUDGET = {'quick': 600, 'thorough': 3600}
EXPLANATION = (
    'Bounded symbolic execution: user names, passwords and authorization ids are '
    'symbolic strings (equality is all the code uses, so one symbolic character '
    'per string ranges over infinitely many concrete strings), roles and the '
    'TLS/LOGINDISABLED configuration are forks; the proof query per path is '
    '"session set <=> some stored user matches authcid and secret and (authzid = '
    'authcid or that user is admin) and the authzid user exists, and the session '
    'owner is authzid"; every other path leaves the session as it was.')
FUNCTIONS = [
    'pymap.imap.state:ConnectionState._login', 'pymap.imap.state:ConnectionState.do_login',
    'pymap.imap.state:ConnectionState.do_authenticate', 'pymap.imap.state:ConnectionState.do_greeting',
    'pymap.imap.state:ConnectionState.do_starttls', 'pymap.imap.state:ConnectionState.capability',
    'pymap.imap.state:ConnectionState.do_command',
    'pymap.backend.dict:Login.authenticate', 'pymap.backend.dict:Login.authorize',
    'pymap.backend.dict:Identity.get', 'pymap.backend.dict:Identity.new_session',
    'pymap.user:UserMetadata.compare_authcid', 'pymap.user:UserMetadata.compare_secret',
    'pymap.user:Passwords.check_password',
]
ASSUMPTIONS = [
    '<= 2 stored users; up to 2 (quick) / 3 (thorough) attempts, each on the same or on a new connection to the same server',
    'password_prep (saslprep) = identity, password hash = cleartext comparison, secrets.compare_digest = equality '
    '(saslprep, hashing and the SASL mechanisms\' own message parsing are third-party code outside the claim)',
]
STUBS = ['SASL mechanism: server_attempt returns arbitrary credentials or fails (the harness passes PlainCredentials '
         'or None to do_authenticate)', 'hash context: verify(a, b) := a == b', 'secrets.compare_digest := ==',
         'password_prep := identity']
OUTSIDE = ['maildir/redis user stores', 'token credentials', 'ManageSieve login (same Login object; its gate is C19)']

_g: dict = {}


def setup() -> None:
    from pysymex import symbytes
    symbytes.SymStr.HASH_OK = True      # users_dict / set_cache are SymDict keyed by symbolic names
    symbytes.SymBytes.HASH_OK = True
    from checks import _sim
    _g.update(_sim.bindings())
    from pymap.backend.dict import Login, Identity
    from pymap.user import UserMetadata
    from pymap.context import connection_exit, socket_info
    from pymap.parsing.command.nonauth import LoginCommand, AuthenticateCommand, StartTLSCommand
    from pymap.exceptions import ResponseError, InvalidAuth, AuthorizationFailure, NotSupportedError
    from pysasl.creds.plain import PlainCredentials
    _g.update(locals())


class _Hash:
    """cleartext stand-in for the configured hash context"""

    def copy(self):
        return self

    def hash(self, value):
        return value

    def verify(self, value, hashed):
        return value == hashed


def drive(c):
    """run a coroutine that may yield bare (asyncio.sleep(0))"""
    for _ in range(50):
        try:
            c.send(None)
        except StopIteration as e:
            return e.value
    c.close()
    raise RuntimeError('coroutine did not finish')


def scenario(g, sim, users, attempts, tls, local, starttls, check, real_prep=False):
    """users: [(name, password, admin)], attempts: [(kind, authcid, secret, authzid)].
    Returns error|None.  Values may be symbolic."""
    from contextlib import AsyncExitStack
    from proxyprotocol.sock import SocketInfoLocal
    from checks import _conn

    class Cfg(g['Config']):
        @property
        def password_prep(self):
            return lambda s: s
    args = sim.FakeArgs()
    if tls:
        args.tls = True
    cfg = (g['Config'] if real_prep else Cfg).from_args(args, hash_context=_Hash(), cpu_subsystem=g['Subsystem'].for_asyncio(),
                                                        invalid_user_sleep=0.0)
    login = g['Login'](cfg)
    for name, pw, admin in users:
        login.users_dict[name] = g['UserMetadata'](cfg, name, password=pw,
                                                   roles=frozenset(['admin']) if admin else frozenset())
    def connect():
        st = g['ConnectionState'](login, cfg)
        g['connection_exit'].set(AsyncExitStack())
        g['socket_info'].set(SocketInfoLocal(_conn.Transport([], local=local)))
        drive(st.do_greeting())
        if starttls:
            try:
                drive(st.do_command(g['StartTLSCommand'](b's')))
            except g['ResponseError']:
                pass
        return st
    st = connect()

    def eq(a, b):
        return a == b
    for k, att in enumerate(attempts):
        kind, authcid, secret, authzid = att[:4]
        if len(att) > 4 and att[4]:
            st = connect()          # a new connection to the same server (same Login object)
        before = st._session
        disabled = b'LOGINDISABLED' in st.capability
        cond = None
        try:
            if kind == 'login':
                cmd = g['LoginCommand'](b't', authcid, secret)
                resp = drive(st.do_command(cmd))
            elif kind == 'auth':
                cmd = g['AuthenticateCommand'](b't', b'PLAIN')
                creds = g['PlainCredentials'](authcid, secret, authzid)
                resp = drive(st.do_authenticate(cmd, creds))
            else:   # mechanism unknown / exchange failed: no credentials
                cmd = g['AuthenticateCommand'](b't', b'PLAIN')
                resp = drive(st.do_authenticate(cmd, None))
            cond = 'OK' if isinstance(resp, g['ResponseOk']) else 'NO' if isinstance(resp, g['ResponseNo']) \
                else 'BAD' if isinstance(resp, g['ResponseBad']) else '?'
        except g['ResponseError'] as exc:
            cond = 'NO'
            if kind == 'login' and isinstance(exc, g['NotSupportedError']) != disabled and before is None:
                return 'LOGIN refused as unsupported=%s but LOGINDISABLED advertised=%s' % (
                    isinstance(exc, g['NotSupportedError']), disabled)
        after = st._session
        if before is not None:
            # already authenticated: do_command refuses LOGIN; do_authenticate is only reachable when not
            # authenticated (connection loop gate, C05)
            if kind == 'login':
                if after is not before:
                    return 'LOGIN on an authenticated connection replaced the session'
                continue
            continue
        if kind == 'login' and disabled:
            if after is not None:
                return 'LOGIN succeeded while LOGINDISABLED is advertised'
            continue
        if kind == 'none':
            if after is not None:
                return 'authenticated without credentials'
            continue
        # the specification
        if kind == 'login':
            a_cid, a_sec, a_zid = authcid.decode('ascii') if isinstance(authcid, bytes) else _dec(authcid), \
                secret.decode('ascii') if isinstance(secret, bytes) else _dec(secret), None
            a_zid = a_cid
        else:
            a_cid, a_sec = authcid, secret
            a_zid = authzid if len(authzid) else authcid
        allowed = False
        for name, pw, admin in users:
            m = _and(eq(name, a_cid), eq(pw, a_sec))
            m = _and(m, _or(eq(a_zid, a_cid), admin))
            exists = False
            for n2, _, _ in users:
                exists = _or(exists, eq(n2, a_zid))
            allowed = _or(allowed, _and(m, exists))
        check(_iff(after is not None, allowed), 'session set <=> credentials valid and authorised')
        if after is not None:
            check(eq(after.owner, a_zid), 'session owner is the authorised identity')
            if cond != 'OK':
                return 'session set but the tagged result is %s' % cond
        elif cond == 'OK':
            return 'tagged OK without a session'
    return None


def _dec(x):
    from pysymex import SymStr
    return SymStr(x.items)


def _lift(x):
    try:
        from pysymex import B
        return B(x)
    except ImportError:
        return bool(x)


def _and(a, b):
    if isinstance(a, bool) and isinstance(b, bool):
        return a and b
    return _lift(a) & _lift(b)


def _or(a, b):
    if isinstance(a, bool) and isinstance(b, bool):
        return a or b
    return _lift(a) | _lift(b)


def _iff(a, b):
    if isinstance(a, bool) and isinstance(b, bool):
        return a == b
    return _lift(a) == _lift(b)


def _harness(nusers, nattempts):
    def fn(eng):
        from pysymex import fresh_str, fresh_bytes, SymBytes, B, AND, Outcome

        def s(name):
            x = fresh_str(eng, name, 1, hi=0x7e)
            eng.add(x.items[0].t >= 0x21)
            return x
        users = [(s('un%d' % i), s('pw%d' % i), eng.flip('admin%d' % i)) for i in range(nusers)]
        if nusers == 2:
            eng.add(users[0][0].items[0].t != users[1][0].items[0].t)
        tls = eng.flip('tls')
        local = eng.flip('local')
        starttls = tls and eng.flip('starttls')
        attempts = []
        for k in range(nattempts):
            kind = ['login', 'auth', 'none'][eng.choose('kind%d' % k, 3)]
            cid, sec = s('cid%d' % k), s('sec%d' % k)
            newconn = k > 0 and eng.flip('newconn%d' % k)
            if kind == 'login':
                attempts.append((kind, SymBytes(cid.items, 'bytes'), SymBytes(sec.items, 'bytes'), None, newconn))
            elif kind == 'auth':
                zid = s('zid%d' % k) if eng.flip('haszid%d' % k) else ''
                attempts.append((kind, cid, sec, zid, newconn))
            else:
                attempts.append((kind, None, None, None, newconn))
        obligations = []

        def ev(x, m):
            if x is None or isinstance(x, (str, bool)):
                return x
            return ''.join(chr(c) for c in x.concrete(m))

        def wit(m):
            return {'users': [[ev(n, m), ev(p, m), a] for n, p, a in users], 'tls': tls, 'local': local,
                    'starttls': starttls,
                    'attempts': [[k, ev(c, m), ev(se, m), ev(z, m), nc] for k, c, se, z, nc in attempts]}
        err = scenario(_g, _g['_sim'], users, attempts, tls, local, starttls,
                       lambda c, msg='': obligations.append(B(c)))
        if err is not None:
            return Outcome(False, witness=wit, info=err)
        return Outcome(AND(*obligations), witness=wit)
    return fn


def _h_lookalike():
    """two accounts whose names differ by one arbitrary code point; the owner of one authenticates with its own
    password and asks to act as the other (real SASLprep, modelled: ASCII exact, "mapped to nothing" exact)"""
    def fn(eng):
        from pysymex import fresh_str, SymStr, B, AND, Outcome
        x = fresh_str(eng, 'x', 1, hi=0x7e)
        eng.add(x.items[0].t >= 0x21)
        e = fresh_str(eng, 'e', 1)
        eng.add((e.items[0].t < 0xD800) | (e.items[0].t > 0xDFFF))
        pos = eng.flip('extra_first')
        u2 = SymStr((e.items + x.items) if pos else (x.items + e.items))
        p1 = fresh_str(eng, 'p', 1, hi=0x7e)
        p2 = fresh_str(eng, 'q', 1, hi=0x7e)
        for p in (p1, p2):
            eng.add(p.items[0].t >= 0x21)
        users = [(x, p1, False), (u2, p2, False)]
        attacker_is_long = eng.flip('attacker_has_the_longer_name')
        cid, sec, zid = (u2, p2, x) if attacker_is_long else (x, p1, u2)
        attempts = [('auth', cid, sec, zid, False)]
        obligations = []

        def ev(v, m):
            return ''.join(chr(c) for c in v.concrete(m)) if hasattr(v, 'concrete') else v

        def wit(m):
            return {'users': [[ev(n, m), ev(p, m), a] for n, p, a in users], 'tls': False, 'local': True, 'starttls': False,
                    'attempts': [[k, ev(c, m), ev(se, m), ev(z, m), nc] for k, c, se, z, nc in attempts], 'real_prep': True}
        err = scenario(_g, _g['_sim'], users, attempts, False, True, False, lambda c, msg='': obligations.append(B(c)), True)
        if err is not None:
            return Outcome(False, witness=wit, info=err)
        return Outcome(AND(*obligations), witness=wit)
    return fn


# ---------------------------------------------------------------- the SASL exchange on the wire
WIRE_USERS = [('u', 'p', False), ('a', 'q', True)]


def plain_spec(raw):
    """what RFC 4616 + the property say about the decoded PLAIN response `raw` (bytes): the identity the connection
    may act as, or None"""
    if raw.count(b'\0') != 2:
        return None
    zid, cid, pw = raw.split(b'\0')
    if not cid:
        return None
    try:
        zid, cid, pw = zid.decode('utf-8'), cid.decode('utf-8'), pw.decode('utf-8')
    except UnicodeDecodeError:
        return None
    zid = zid or cid
    for name, secret, admin in WIRE_USERS:
        if name == cid and secret == pw and (zid == cid or admin) and any(n == zid for n, _, _ in WIRE_USERS):
            return zid
    return None


def sasl_wire(g, sim, conn_mod, b64line, tls=False):
    """AUTHENTICATE PLAIN + one response line on the real connection loop; returns (authenticated?, output)"""
    from contextlib import AsyncExitStack

    class Cfg(g['Config']):
        pass
    args = sim.FakeArgs()
    cfg = Cfg.from_args(args, hash_context=_Hash(), cpu_subsystem=g['Subsystem'].for_asyncio(), invalid_user_sleep=0.0)
    login = g['Login'](cfg)
    for name, pw, admin in WIRE_USERS:
        login.users_dict[name] = g['UserMetadata'](cfg, name, password=pw, roles=frozenset(['admin']) if admin else frozenset())
    feed = [b'a AUTHENTICATE PLAIN\r\n', b64line, b'x LIST "" ""\r\n', b'y NOOP\r\n']
    tr, state, exc = conn_mod.run_imap(g, login, cfg, feed, local=True)
    out = bytes(x if isinstance(x, int) else 63 for x in tr.output())
    if exc is not None:
        return None, 'connection raised %r' % (exc,), None
    lines = out.split(b'\r\n')
    probe = [ln for ln in lines if ln.startswith(b'x ')]
    if not probe:
        return None, 'the probe command got no tagged answer: %r' % out[-120:], None
    owner = state._session.owner if state is not None and state._session is not None else None
    return probe[0].startswith(b'x OK'), None, owner


def _h_sasl_wire(n, fixed=None):
    def fn(eng):
        from pysymex import fresh_bytes, SymBytes, Outcome
        from pysymex.codecs7 import b64encode_items
        from checks import _conn
        raw = fresh_bytes(eng, 'r', n)
        for pos, val in (fixed or {}).items():
            eng.add(raw.items[pos].t == val)
        line = SymBytes(list(b64encode_items(raw.items)) + [13, 10], 'bytes')
        g = dict(_g)
        from pymap.imap import IMAPConnection
        g['IMAPConnection'] = IMAPConnection
        authed, err, owner = sasl_wire(g, _g['_sim'], _conn, line)
        wit = lambda m: {'raw': bytes(raw.eval(m)).hex()}  # noqa: E731
        if err:
            return Outcome(False, witness=wit, info=err)
        # the specification, on the concrete shape of this path: fork until the bytes that matter are decided
        conc = []
        for c in raw.items:
            # NUL positions and equality with the few characters of the stored credentials decide the outcome
            v = None
            for k in (0, ord('u'), ord('p'), ord('a'), ord('q')):
                if bool(c == k):
                    v = k
                    break
            if v is None:
                v = ord('z') if bool(c < 0x80) else 0xff     # any other ASCII byte / any non-ASCII byte
            conc.append(v)
        want = plain_spec(bytes(conc))
        ok = (authed == (want is not None)) and (owner is None or (want is not None and bool(owner == want)))
        return Outcome(ok, witness=wit, info='authenticated=%s owner=%s, the specification says %r' % (authed, owner, want))
    return fn


GOOD_PLAIN = b'AHUAcA=='          # base64 of NUL u NUL p : the valid credentials of WIRE_USERS[0]


def malformed_line(pos, junk):
    """the valid response with `junk` (bytes / items) inserted at character position pos"""
    return list(GOOD_PLAIN[:pos]) + list(junk) + list(GOOD_PLAIN[pos:]) + [13, 10]


def _h_sasl_malformed(njunk):
    """a response that is not base64 - valid credentials with characters from outside the alphabet in it - is a malformed
    exchange: it leaves the connection unauthenticated"""
    def fn(eng):
        from pysymex import fresh_bytes, SymBytes, Outcome
        from checks import _conn
        pos = eng.choose('pos', len(GOOD_PLAIN) + 1)
        junk = fresh_bytes(eng, 'j', njunk)
        for c in junk.items:
            t = c.t
            import z3
            eng.add(z3.Not(z3.Or(z3.And(t >= 48, t <= 57), z3.And(t >= 65, t <= 90), z3.And(t >= 97, t <= 122),
                                 t == 43, t == 47, t == 61, t == 10)))
            if pos == len(GOOD_PLAIN):
                eng.add(t != 13)          # CR before the final CRLF is line-ending, not content
        line = SymBytes(malformed_line(pos, junk.items), 'bytes')
        g = dict(_g)
        from pymap.imap import IMAPConnection
        g['IMAPConnection'] = IMAPConnection
        authed, err, owner = sasl_wire(g, _g['_sim'], _conn, line)
        wit = lambda m: {'pos': pos, 'junk': bytes(junk.eval(m)).hex()}  # noqa: E731
        if err:
            return Outcome(False, witness=wit, info=err)
        return Outcome(not authed, witness=wit, info='a response that is not base64 authenticated the connection as %s' % (owner,))
    return fn


def harnesses(tier):
    from pysymex.runner import Harness
    cfgs = [(1, 1), (2, 1), (2, 2)] if tier == 'quick' else [(1, 1), (2, 1), (2, 2), (2, 3)]
    wire = [Harness('sasl_plain_on_the_wire[raw=%d]' % n, _h_sasl_wire(n),
                    {'decoded_response_bytes': n, 'users': WIRE_USERS, 'probe': 'LIST after the exchange'},
                    replay='saslwire', task_budget=60) for n in range(0, (4 if tier == 'quick' else 5) + 1)]
    # authzid of one character: <z> NUL <c> NUL <p>
    wire.append(Harness('sasl_plain_on_the_wire[raw=5,byte1=NUL]', _h_sasl_wire(5, {1: 0}),
                        {'decoded_response_bytes': 5, 'shape': 'one-character authzid', 'users': WIRE_USERS}, replay='saslwire',
                        task_budget=60))
    for nj in ([1] if tier == 'quick' else [1, 2]):
        wire.append(Harness('sasl_plain_malformed_base64[junk=%d]' % nj, _h_sasl_malformed(nj),
                            {'response': 'valid credentials in base64 with %d byte(s) from outside the alphabet at any position' % nj,
                             'probe': 'LIST after the exchange'}, replay='saslmalformed', task_budget=60))
    wire.append(Harness('lookalike_accounts', _h_lookalike(),
                        {'users': 'x and x+<any code point> (either order)', 'attempt': 'own password, authzid = the other account',
                         'saslprep': 'modelled: ASCII exact, B.1 (mapped to nothing) exact'}, replay='scenario', task_budget=60))
    return wire + [Harness('attempts[users=%d,n=%d]' % (u, n), _harness(u, n),
                    {'stored_users': u, 'attempts': n, 'strings': 'symbolic (1 character each, equality only)'},
                    replay='scenario', task_budget=60) for u, n in cfgs]


def replay(harness, w):
    from checks import _sim
    g = _sim.bindings()
    from pymap.backend.dict import Login, Identity
    from pymap.user import UserMetadata
    from pymap.context import connection_exit, socket_info
    from pymap.parsing.command.nonauth import LoginCommand, AuthenticateCommand, StartTLSCommand
    from pymap.exceptions import ResponseError, InvalidAuth, AuthorizationFailure, NotSupportedError
    from pysasl.creds.plain import PlainCredentials
    g.update(locals())
    bad = []
    if harness == 'saslmalformed':
        from checks import _conn
        from pymap.imap import IMAPConnection
        g['IMAPConnection'] = IMAPConnection
        authed, err, owner = sasl_wire(g, _sim, _conn, bytes(malformed_line(w['pos'], bytes.fromhex(w['junk']))))
        if err:
            bad.append(err)
        elif authed:
            bad.append('response %r authenticated the connection as %s' % (bytes(malformed_line(w['pos'], bytes.fromhex(w['junk']))), owner))
        return {'violates': bool(bad), 'detail': bad[:3], 'category': 'sasl wire: malformed base64'}
    if harness == 'saslwire':
        import base64
        from checks import _conn
        from pymap.imap import IMAPConnection
        g['IMAPConnection'] = IMAPConnection
        raw = bytes.fromhex(w['raw'])
        authed, err, owner = sasl_wire(g, _sim, _conn, base64.b64encode(raw) + b'\r\n')
        want = plain_spec(raw)
        if err:
            bad.append(err)
        elif authed != (want is not None) or (owner is not None and str(owner) != want):
            bad.append('response %r: authenticated=%s owner=%s, the specification says %r' % (raw, authed, owner, want))
        return {'violates': bool(bad), 'detail': bad[:3], 'category': 'sasl wire'}

    def check(c, msg=''):
        if not c:
            bad.append(msg or 'obligation failed')
    attempts = []
    for kind, c, s, z, nc in w['attempts']:
        if kind == 'login':
            attempts.append((kind, c.encode(), s.encode(), None, nc))
        else:
            attempts.append((kind, c, s, z, nc))
    err = scenario(g, _sim, [tuple(u) for u in w['users']], attempts, w['tls'], w['local'], w['starttls'], check,
                   w.get('real_prep', False))
    if err:
        bad.append(err)
    return {'violates': bool(bad), 'detail': bad[:3], 'category': (bad[0] if bad else '')[:70]}


def classify(harness, w, res):
    return None

"""C10 - message commands behave as the IMAP reference model says.

Programs of message commands run through the real ConnectionState.do_command
on the dict backend (checks/_sim.py); after every command the stored mailbox
(UIDs, permanent flags) and the flags reported to the acting client are
compared with a plain reference model evaluated on the same (symbolic)
operands.  Sequence-set numbers are symbolic integers, so one path stands for
every concrete set with the same coverage of the view.
"""
from __future__ import annotations

ID = 'C10'
LEVEL = 'model_checking'
TIME_BUDGET = {'quick': 900, 'thorough': 7200}
EXPLANATION = (
    'Bounded symbolic execution of command programs on the real session layer '
    'and dict backend: which command runs is a fork, sequence/UID set numbers '
    'are z3 integers (including reversed ranges, *, out of range), the UID base '
    'is an unbounded z3 integer; the reference model resolves the same sets by '
    'its own (RFC) rule; a proof query per path states store == model.')
FUNCTIONS = [
    'pymap.flags:FlagOp.apply', 'pymap.flags:PermanentFlags.intersect', 'pymap.flags:SessionFlags.update',
    'pymap.parsing.specials.sequenceset:SequenceSet._get_range', 'pymap.parsing.specials.sequenceset:SequenceSet.iter',
    'pymap.parsing.specials.sequenceset:SequenceSet.flatten',
    'pymap.selected:SynchronizedMessages.get_uids', 'pymap.selected:SynchronizedMessages.get_all',
    'pymap.backend.session:BaseSession.update_flags', 'pymap.backend.session:BaseSession.expunge_mailbox',
    'pymap.backend.session:BaseSession.copy_messages', 'pymap.backend.session:BaseSession.move_messages',
    'pymap.backend.session:BaseSession.fetch_messages', 'pymap.backend.session:BaseSession.append_messages',
    'pymap.backend.mailbox:MailboxDataInterface.find', 'pymap.backend.mailbox:MailboxDataInterface.find_deleted',
    'pymap.backend.dict.mailbox:MailboxData.append', 'pymap.backend.dict.mailbox:MailboxData.copy',
    'pymap.backend.dict.mailbox:MailboxData.move', 'pymap.backend.dict.mailbox:MailboxData.update',
    'pymap.backend.dict.mailbox:MailboxData.delete',
    'pymap.parsing.specials.fetchattr:FetchAttribute.set_seen',
    'pymap.imap.state:ConnectionState.do_store', 'pymap.imap.state:ConnectionState.do_fetch',
    'pymap.imap.state:ConnectionState.do_expunge', 'pymap.imap.state:ConnectionState.do_copy',
    'pymap.imap.state:ConnectionState.do_move', 'pymap.imap.state:ConnectionState.do_close',
]
ASSUMPTIONS = [
    'm initial messages, programs of <= d commands, one acting session plus one observer (bounds in the harness list)',
    'EXPUNGE removes the \\Deleted messages of the acting session\'s current view (messages it has not been told '
    'about yet are left; the RFC lets a server do either)',
    'keywords are not permitted flags on the dict backend (PERMANENTFLAGS has no \\*), so STORE of a keyword changes nothing',
]
STUBS = ['coroutines driven with send(None) (no contention)', 'sessions attached directly (login is C09)']
OUTSIDE = ['maildir', 'FETCH body content (C03)', 'programs longer than the bound']

_g: dict = {}
OPS = ['store', 'uidstore', 'expunge', 'uidexpunge', 'fetch_body', 'fetch_peek', 'copy', 'move', 'append', 'close_reselect']
MODES = ['ADD', 'DELETE', 'REPLACE']


def setup() -> None:
    from checks import _sim
    _g.update(_sim.bindings())
    _g['_sim'] = _sim


# ---------------------------------------------------------------- model
def covers(elem, i, n):
    """does the sequence-set element address number i when '*' = n (RFC 3501:
    n:m and m:n are the same; '*' is the largest number in use; n = 0 means
    nothing exists and nothing is addressed)"""
    if n < 1:
        return False
    star = lambda x: n if isinstance(x, str) else x  # noqa: E731
    if isinstance(elem, tuple):
        a, b = star(elem[0]), star(elem[1])
        if a <= b:
            return (a <= i) and (i <= b)
        return (b <= i) and (i <= a)
    a = star(elem)
    return a == i


def addressed(elems, uid, view):
    """positions (0-based) of view addressed by the set"""
    out = []
    n = len(view)
    top = view[-1] if view else 0
    for idx, u in enumerate(view):
        hit = False
        for e in elems:
            if uid:
                if covers(e, u, top):
                    hit = True
                    break
            else:
                if covers(e, idx + 1, n):
                    hit = True
                    break
        if hit:
            out.append(idx)
    return out


def program(g, sim, base, m, script, check):
    """script entries: (op, args dict).  Session 0 acts, session 1 observes."""
    w = sim.World(g, 2, base_uid=base, check=check)
    Seen, Deleted, Flagged, Recent = g['Seen'], g['Deleted'], g['Flagged'], g['Recent']
    permitted = {Seen, Deleted, Flagged, g['Answered'], g['Draft']}
    fl = {'S': Seen, 'D': Deleted, 'F': Flagged, 'K': g['Flag'](b'kw'), 'R': Recent}
    model = {'INBOX': [], 'Other': []}          # lists of [uid, set(flags)]
    import datetime as _dt
    # every message is appended with this date-time, written with an offset that is not the server's
    WHEN = _dt.datetime(2020, 1, 15, 12, 0, 0, tzinfo=_dt.timezone(_dt.timedelta(hours=5, minutes=30)))
    for i in range(m):
        init = [Deleted] if i % 2 else []
        cond, resp = w.append(0, flags=init, when=WHEN)
        uid = sorted(resp.code.uids)[0] if False else list(resp.code.uids)[0]
        model['INBOX'].append([uid, set(init)])
    w.select(0)
    w.select(1)

    def compare(where):
        for name in ('INBOX', 'Other'):
            store = w.dump(name)
            mod = model[name]
            if len(store) != len(mod):
                return '%s: %s has %d messages, model %d' % (where, name, len(store), len(mod))
            for (uid, flags, _), (muid, mflags) in zip(store, mod):
                check(uid == muid, '%s: UID differs' % where)
                if set(flags) != mflags:
                    return '%s: %s flags %r, model %r' % (
                        where, name, sorted(bytes(f) for f in flags), sorted(bytes(f) for f in mflags))
            # APPEND stores the given date, COPY and MOVE duplicate it
            for msg in w.mbx(name)._messages.values():
                d = msg.internal_date
                if d.tzinfo is None or d != WHEN:
                    return '%s: %s holds a message dated %s, appended as %s' % (where, name, d.isoformat(), WHEN.isoformat())
        return None

    for op, a in script:
        view = list(w.server_view(0) or [])
        live = {id(e): e for e in model['INBOX']}
        by_uid = lambda u: next((e for e in model['INBOX'] if bool(e[0] == u)), None)  # noqa: E731
        if op in ('store', 'uidstore'):
            uidm = op == 'uidstore'
            flags = [fl[c] for c in a['flags']]
            cond, resp = w.store(0, a['set'], flags, a['mode'], uid=uidm, silent=a.get('silent', False))
            if cond != 'OK':
                return 'STORE answered %s' % cond
            eff = set(flags) & permitted
            for idx in addressed(a['set'], uidm, view):
                e = by_uid(view[idx])
                if e is None:
                    continue       # expunged by someone else: nothing to change
                if a['mode'] == 'ADD':
                    e[1] |= eff
                elif a['mode'] == 'DELETE':
                    e[1] -= eff
                else:
                    e[1] = set(eff)
            # non-silent STORE reports the new flags of each addressed, existing message
            if not a.get('silent', False):
                got = {}
                for r in resp._untagged:
                    if isinstance(r, g['FetchResponse']):
                        for attr, val in r.data.items():
                            if attr.value == b'FLAGS':
                                got[r.seq] = w._fetch_flags(val)
                for idx in addressed(a['set'], uidm, view):
                    e = by_uid(view[idx])
                    if e is None:
                        continue
                    rep = got.get(idx + 1)
                    if rep is None:
                        return 'STORE did not report flags of message %d' % (idx + 1)
                    if set(rep) - {Recent} != e[1]:
                        return 'STORE reported %r, model %r' % (sorted(map(bytes, rep)), sorted(map(bytes, e[1])))
        elif op in ('expunge', 'uidexpunge'):
            if op == 'expunge':
                cond, resp = w.expunge(0)
                sel = list(range(len(view)))
            else:
                cond, resp = w.expunge(0, a['set'])
                sel = addressed(a['set'], True, view)
            if cond != 'OK':
                return 'EXPUNGE answered %s' % cond
            for idx in sel:
                e = by_uid(view[idx])
                if e is not None and Deleted in e[1]:
                    model['INBOX'].remove(e)
        elif op in ('fetch_body', 'fetch_peek'):
            attr = b'BODY[]' if op == 'fetch_body' else b'BODY.PEEK[]'
            cond, resp = w.fetch(0, a['set'], [attr], uid=a.get('uid', False))
            if cond != 'OK':
                return 'FETCH answered %s' % cond
            if op == 'fetch_body':
                for idx in addressed(a['set'], a.get('uid', False), view):
                    e = by_uid(view[idx])
                    if e is not None:
                        e[1].add(Seen)
        elif op in ('copy', 'move'):
            cond, resp = w.copy(0, a['set'], 'Other', uid=a.get('uid', False), move=(op == 'move'))
            if cond != 'OK':
                return '%s answered %s' % (op, cond)
            before = [u for u, _ in model['Other']]
            store = w.dump('Other')
            new_uids = [u for u, _, _ in store[len(before):]]
            k = 0
            for idx in addressed(a['set'], a.get('uid', False), view):
                e = by_uid(view[idx])
                if e is None:
                    continue
                if k >= len(new_uids):
                    return '%s: fewer messages arrived than addressed' % op
                model['Other'].append([new_uids[k], set(e[1])])
                k += 1
                if op == 'move':
                    model['INBOX'].remove(e)
            # C04: each new UID exceeds every earlier UID of the destination
            for u in new_uids:
                for b in before:
                    check(u > b, 'destination UID not increasing')
            for x, y in zip(new_uids, new_uids[1:]):
                check(x < y, 'destination UIDs not increasing')
        elif op == 'append':
            flags = [fl[c] for c in a['flags']]
            cond, resp = w.append(0, flags=flags, when=WHEN)
            if cond != 'OK':
                return 'APPEND answered %s' % cond
            uid = list(resp.code.uids)[0]
            for e in model['INBOX']:
                check(uid > e[0], 'APPEND UID not increasing')
            model['INBOX'].append([uid, set(flags) - {Recent}])
        elif op == 'close_reselect':
            cond, resp = w.close(0)
            if cond != 'OK':
                return 'CLOSE answered %s' % cond
            if w.states[0]._selected is not None:
                return 'CLOSE left a mailbox selected'
            for idx in range(len(view)):
                e = by_uid(view[idx])
                if e is not None and Deleted in e[1]:
                    model['INBOX'].remove(e)
            w.select(0)
        err = compare('after %s' % op)
        if err:
            return err
        err = w.check_client_matches_server(0, 'after %s' % op)
        if err:
            return 'client/server: ' + err
    w.noop(1)
    return w.check_converged(1)


def _gen_args(eng, t, op, m, d, base, rich=True):
    from pysymex import SymUid

    def num(name, lo, hi):
        return eng.fresh_int('%s%d' % (name, t), lo, hi, cls=SymUid)
    shapes = ['n', 'r', 'star', 'nstar'] + (['nn', 'rn'] if rich and m <= 2 else [])
    a = {}
    uidm = op in ('uidstore', 'uidexpunge')
    if op in ('store', 'uidstore', 'uidexpunge', 'fetch_body', 'fetch_peek', 'copy', 'move'):
        if op in ('fetch_body', 'copy', 'move') and eng.flip('uid%d' % t):
            a['uid'] = True
            uidm = True
        sh = shapes[eng.choose('shape%d' % t, len(shapes))]
        if uidm:
            # window around the live UIDs (base+1 .. base+m+d), may be reversed / out of range
            mk = lambda nm: SymUid((base + eng.fresh_int('%s%d' % (nm, t), 0, m + d + 2)).t)  # noqa: E731
        else:
            mk = lambda nm: num(nm, 1, m + d + 2)  # noqa: E731
        if sh == 'n':
            a['set'] = [mk('a')]
        elif sh == 'r':
            a['set'] = [(mk('a'), mk('b'))]
        elif sh == 'nn':
            a['set'] = [mk('a'), mk('b')]          # may name the same message twice
        elif sh == 'rn':
            a['set'] = [(mk('a'), mk('b')), mk('c')]   # overlapping range and number
        elif sh == 'star':
            a['set'] = ['*']
        else:
            a['set'] = [(mk('a'), '*')]
    if op in ('store', 'uidstore'):
        a['mode'] = MODES[eng.choose('mode%d' % t, 3)]
        if rich:
            a['flags'] = ['S', 'D', 'K', 'SF', 'R'][eng.choose('fl%d' % t, 5)]
            a['silent'] = eng.flip('silent%d' % t)
        else:
            a['flags'] = ['D', 'SK'][eng.choose('fl%d' % t, 2)]
            a['silent'] = False
    if op == 'append':
        a['flags'] = (['', 'S', 'DK', 'R'][eng.choose('afl%d' % t, 4)]) if rich else 'D'
    return a


def _harness(m, d, ops):
    def fn(eng):
        from pysymex import SymUid, B, AND, Outcome
        base = eng.fresh_int('base', 0, cls=SymUid)
        script = []
        for t in range(d):
            op = ops[eng.choose('op%d' % t, len(ops))]
            script.append((op, _gen_args(eng, t, op, m, d, base, rich=(d == 1))))
        obligations = []

        def conc(x, mdl):
            if isinstance(x, tuple):
                return [conc(y, mdl) for y in x]
            if isinstance(x, (str, bool)) or x is None:
                return x
            if isinstance(x, int):
                return x
            return x.eval(mdl)

        def wit(mdl):
            sc = []
            for op, a in script:
                aa = dict(a)
                if 'set' in aa:
                    aa['set'] = [conc(e, mdl) for e in aa['set']]
                sc.append([op, aa])
            return {'base': base.eval(mdl), 'm': m, 'script': sc}
        err = program(_g, _g['_sim'], base, m, script, lambda c, msg='': obligations.append(B(c)))
        if err is not None:
            return Outcome(False, witness=wit, info=err)
        return Outcome(AND(*obligations), witness=wit)
    return fn


def harnesses(tier):
    from pysymex.runner import Harness
    if tier == 'quick':
        cfgs = [(2, 1, OPS), (3, 1, ['store', 'uidstore', 'uidexpunge', 'move']),
                (2, 2, ['store', 'expunge', 'move', 'append'])]
    else:
        cfgs = [(3, 1, OPS), (2, 2, OPS), (3, 2, ['store', 'uidstore', 'expunge', 'uidexpunge', 'move', 'append']),
                (2, 3, ['store', 'expunge', 'move', 'append'])]
    from checks import c04_maildir
    if '_mg' not in _g:
        _g['_mg'] = c04_maildir.bindings()
    md = [Harness('maildir_move_copy_histories', c04_maildir.history_harness(_g['_mg']),
                  {'histories': c04_maildir.HISTORIES, 'next_uid': 'symbolic',
                   'oracle': 'the operation returns; every message file is listed under exactly one UID'},
                  replay='mdhistory', task_budget=60)]
    return md + [Harness('program[m=%d,d=%d,ops=%d]' % (m, d, len(ops)), _harness(m, d, ops),
                         {'initial_messages': m, 'program_length': d, 'ops': ops,
                          'set_numbers': 'symbolic 1..%d / UID window' % (m + d + 2)},
                         replay='program', task_budget=40) for m, d, ops in cfgs]


def replay(harness, w):
    from checks import _sim
    if harness == 'mdhistory':
        from checks import c04_maildir
        bad = c04_maildir.history_replay(w)
        return {'violates': bool(bad), 'detail': bad[:3], 'category': 'maildir: ' + (bad[0] if bad else '')[:60]}
    g = _sim.bindings()
    bad = []

    def check(c, msg=''):
        if not c:
            bad.append(msg or 'obligation failed')

    def fix(e):
        return tuple(e) if isinstance(e, list) else e
    script = []
    for op, a in w['script']:
        a = dict(a)
        if 'set' in a:
            a['set'] = [fix(e) for e in a['set']]
        script.append((op, a))
    err = program(g, _sim, w['base'], w['m'], script, check)
    if err:
        bad.append(err)
    return {'violates': bool(bad), 'detail': bad[:3], 'category': (bad[0] if bad else '')[:70]}


def classify(harness, w, res):
    return None

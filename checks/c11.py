"""C11 - mailbox namespace commands behave as the reference model says.

(a) LIST wildcard semantics: the real ListTree (update / list_matching /
    _get_pattern, regex built from the client's pattern) with *symbolic* names
    and a *symbolic* reference+pattern; oracle: '*' matches any characters,
    '%' any but the delimiter, everything else itself - a dynamic-programming
    table of z3 Booleans; obligation impl_listed == spec_match per name.
(b) programs of CREATE / DELETE / RENAME / SUBSCRIBE / LIST / LSUB / STATUS /
    SELECT through the real ConnectionState.do_command on the dict backend
    over a vocabulary of awkward names, LIST pattern symbolic; a set-of-names
    model; NO => nothing changed.
(c) maildir MailboxSet error mapping with a stub layout that raises exactly the
    exceptions the layout protocol documents: the session layer must turn each
    into a tagged NO.
"""
from __future__ import annotations

ID = 'C11'
LEVEL = 'model_checking'
TIME_BUDGET = {'quick': 900, 'thorough': 5400}
EXPLANATION = (
    'Bounded symbolic execution: names and LIST patterns are symbolic strings; the '
    'regex that pymap builds from the pattern is matched by the engine over '
    'symbolic characters (placeholders for escaped symbolic literals); the spec '
    'is a DP table of z3 terms over the same characters; one proof query per '
    'path states that the two agree for every name.')
FUNCTIONS = [
    'pymap.listtree:ListTree.update', 'pymap.listtree:ListTree.get', 'pymap.listtree:ListTree.get_renames',
    'pymap.listtree:ListTree.list_matching', 'pymap.listtree:ListTree._get_pattern', 'pymap.listtree:ListTree._iter',
    'pymap.listtree:_TreeNode.add',
    'pymap.backend.dict.mailbox:MailboxSet.add_mailbox', 'pymap.backend.dict.mailbox:MailboxSet.delete_mailbox',
    'pymap.backend.dict.mailbox:MailboxSet.rename_mailbox', 'pymap.backend.dict.mailbox:MailboxSet.list_mailboxes',
    'pymap.backend.dict.mailbox:MailboxSet.list_subscribed', 'pymap.backend.dict.mailbox:MailboxSet.get_mailbox',
    'pymap.backend.session:BaseSession.list_mailboxes', 'pymap.backend.session:BaseSession.create_mailbox',
    'pymap.backend.session:BaseSession.delete_mailbox', 'pymap.backend.session:BaseSession.rename_mailbox',
    'pymap.backend.session:BaseSession.get_mailbox', 'pymap.backend.session:BaseSession.select_mailbox',
    'pymap.imap.state:ConnectionState.do_create', 'pymap.imap.state:ConnectionState.do_delete',
    'pymap.imap.state:ConnectionState.do_rename', 'pymap.imap.state:ConnectionState.do_list',
    'pymap.imap.state:ConnectionState.do_status', 'pymap.parsing.specials.mailbox:Mailbox.__init__',
    'pymap.backend.maildir.mailbox:MailboxSet.add_mailbox', 'pymap.backend.maildir.mailbox:MailboxSet.delete_mailbox',
    'pymap.backend.maildir.mailbox:MailboxSet.rename_mailbox', 'pymap.backend.maildir.mailbox:MailboxSet.get_mailbox',
]
ASSUMPTIONS = [
    '(a) <= 2 names of <= 2 characters without empty components (no leading/trailing/doubled delimiter), pattern '
    '(reference + filter) of <= 3 characters, all symbolic',
    '(b) programs of <= 2 (quick) / 3 (thorough) commands over an 8-name vocabulary; LIST pattern <= 2 symbolic characters',
    'inferiors of INBOX are not created (the RFC leaves their fate on RENAME INBOX open)',
    'case-insensitive INBOX matching is modelled for ASCII letters only',
]
STUBS = ['(c) the maildir layout and Maildir objects are stubs raising the documented exceptions']
OUTSIDE = ['maildir directories themselves', 'modified UTF-7 spelling of names (C18)']

_g: dict = {}
VOCAB = ['a', 'a/b', 'A', 'a\nb', 'x*', 'a/b/c', 'b', 'iNbOx', 'a/a', 'INBOX/a']


def setup() -> None:
    from pysymex import symbytes
    symbytes.SymStr.HASH_OK = True
    symbytes.SymBytes.HASH_OK = True
    from checks import _sim
    _g.update(_sim.bindings())
    _g['_sim'] = _sim
    from pymap.listtree import ListTree
    from pymap.exceptions import ResponseError, MailboxNotFound, MailboxConflict
    _g.update(locals())


# ---------------------------------------------------------------- (a) wildcards
def spec_match(name, query, delim=47):
    """RFC 3501 6.3.8 as a non-forking term.  name/query: lists of code points (int|SymInt)"""
    n, q = len(name), len(query)
    # dp[i][j]: query[i:] matches name[j:]
    dp = [[False] * (n + 1) for _ in range(q + 1)]
    dp[q][n] = True
    for i in range(q - 1, -1, -1):
        c = query[i]
        star = c == 42
        pct = c == 37
        for j in range(n, -1, -1):
            r_star = dp[i + 1][j]
            r_pct = dp[i + 1][j]
            r_lit = False
            if j < n:
                r_star = r_star | dp[i][j + 1]
                r_pct = r_pct | ((name[j] != delim) & dp[i][j + 1])
                r_lit = (c == name[j]) & dp[i + 1][j + 1]
            lit = (star | pct)
            lit = (not lit) if isinstance(lit, bool) else ~lit
            dp[i][j] = (star & r_star) | (pct & r_pct) | (lit & r_lit)
    return dp[0][0]


def _ci_items(name):
    """for INBOX: the pattern is matched case-insensitively against 'INBOX'"""
    return name


def _h_wildcards(nnames, nlen, qlen):
    def fn(eng):
        from pysymex import fresh_str, B, AND, Outcome
        names = []
        for i in range(nnames):
            s = fresh_str(eng, 'n%d_' % i, nlen, hi=0x7f)
            for c in s.items:
                eng.add(c.t >= 1)
            # well-formed hierarchical names: no empty component
            eng.add(s.items[0].t != 47)
            eng.add(s.items[-1].t != 47)
            for x, y in zip(s.items, s.items[1:]):
                eng.add((x.t != 47) | (y.t != 47))
            names.append(s)
        # distinct, and none is (case-insensitively) INBOX: that one is always present and handled below
        for i in range(nnames):
            for j in range(i + 1, nnames):
                if bool(names[i] == names[j]):
                    from pysymex import Infeasible
                    raise Infeasible()
        query = fresh_str(eng, 'q', qlen, hi=0x7f)
        for c in query.items:
            eng.add(c.t >= 1)
        wit = lambda m: {'names': [s.concrete(m) for s in names], 'query': query.concrete(m)}  # noqa: E731
        tree = _g['ListTree']('/').update('INBOX', *names)
        listed = [e.name for e in tree.list_matching('', query) if e.exists]
        props = []
        for s in names:
            got = any(e is s or bool(e == s) for e in listed)
            props.append(B(spec_match(s.items, query.items)) == B(got))
        return Outcome(AND(*props), witness=wit)
    return fn


def _h_renames(slen, tlen):
    """ListTree.get_renames(p, t) for a mailbox p with an inferior p/s: exactly (p -> t) and (p/s -> t/s)"""
    def fn(eng):
        from pysymex import fresh_str, B, AND, Outcome

        def part(tag, n):
            x = fresh_str(eng, tag, n, hi=0x7e)
            for c in x.items:
                eng.add((c.t >= 0x21) & (c.t != 47))
            return x
        p, s_, t = part('p', 1), part('s', slen), part('t', tlen)
        if bool(p == t):
            from pysymex import Infeasible
            raise Infeasible()
        wit = lambda m: {'p': p.concrete(m), 's': s_.concrete(m), 't': t.concrete(m)}  # noqa: E731
        child = p + '/' + s_
        tree = _g['ListTree']('/').update('INBOX', p, child)
        pairs = tree.get_renames(p, t)
        if len(pairs) != 2:
            return Outcome(False, witness=wit, info='%d renames' % len(pairs))
        want = [(p, t), (child, t + '/' + s_)]
        props = []
        for (a, b), (wa, wb) in zip(pairs, want):
            props.append(B(a == wa))
            props.append(B(b == wb) if len(b) == len(wb) else False)
        return Outcome(AND(*props), witness=wit)
    return fn


# ---------------------------------------------------------------- (b) programs
OPS = ['create', 'delete', 'rename', 'subscribe', 'list', 'lsub', 'status', 'select']


def canon(name):
    return 'INBOX' if name.upper() == 'INBOX' else name


def model_rename(names, a, b):
    """returns new set or None (NO)"""
    if b == 'INBOX':
        return None
    tree_nodes = set()
    for n in names | {'INBOX'}:
        parts = n.split('/')
        for k in range(1, len(parts) + 1):
            tree_nodes.add('/'.join(parts[:k]))
    if a not in tree_nodes or b in tree_nodes:
        return None
    out = set()
    for n in names:
        if n == a or n.startswith(a + '/'):
            out.add(b + n[len(a):])
        else:
            out.add(n)
    if a == 'INBOX':
        out = set(names) | {b}
    return out


def program(g, sim, script, check, match):
    """script: [(op, name, name2, pattern)].  match(name_items, pattern) -> bool/cond"""
    w = sim.World(g, 1, mailboxes=())
    names = set()            # besides INBOX
    subs = set()
    for op, a, b, pat in script:
        a_c = canon(a) if a is not None else None
        b_c = canon(b) if b is not None else None
        before = (set(names), set(subs))
        if op == 'create':
            cond, resp = w.run(0, g['CreateCommand'](w.tag(), g['Mailbox'](a), g['ExtensionOptions'].empty()))
            want = 'NO' if (a_c == 'INBOX' or a_c in names) else 'OK'
            if want == 'OK':
                names.add(a_c)
        elif op == 'delete':
            cond, resp = w.run(0, g['DeleteCommand'](w.tag(), g['Mailbox'](a)))
            want = 'OK' if (a_c in names) else 'NO'
            if want == 'OK':
                names.discard(a_c)
        elif op == 'rename':
            cond, resp = w.run(0, g['RenameCommand'](w.tag(), g['Mailbox'](a), g['Mailbox'](b),
                                                     g['ExtensionOptions'].empty()))
            new = model_rename(names, a_c, b_c)
            want = 'OK' if new is not None else 'NO'
            if new is not None:
                names = new
        elif op == 'subscribe':
            cond, resp = w.run(0, g['SubscribeCommand'](w.tag(), g['Mailbox'](a)))
            want = 'OK'
            subs.add(a_c)
        elif op in ('list', 'lsub'):
            cls = g['ListCommand'] if op == 'list' else g['LSubCommand']
            cond, resp = w.run(0, cls(w.tag(), '', pat))
            want = 'OK'
            got = []
            for r in resp._untagged:
                if isinstance(r, g['ListResponse']):
                    if b'Noselect' not in list(r.attrs):
                        got.append(r.mailbox)
            # the statement: LIST returns exactly the existing names, LSUB exactly the subscribed ones (RFC 3501 6.3.9: a
            # subscribed name stays in the list even if no mailbox of that name exists any more)
            universe = (names | {'INBOX'}) if op == 'list' else set(subs)
            for nm in sorted(universe | ({'INBOX'} if op == 'lsub' else set())):
                listed = nm in got
                tag = ''
                if nm not in universe:
                    exp = False
                    tag = 'LSUB-INBOX-UNSUBSCRIBED: '
                elif nm == 'INBOX':
                    # matched case-insensitively
                    exp = match([ord(c) for c in 'INBOX'], pat, True)
                else:
                    exp = match([ord(c) for c in nm], pat, False)
                    if op == 'lsub' and nm not in names:
                        tag = 'LSUB-SUBSCRIBED-NONEXISTENT: '
                check(exp == listed if isinstance(exp, bool) else (exp == listed),
                      '%s%s %r: %r listed=%s' % (tag, op, pat, nm, listed))
            for nm in got:
                if nm not in universe and not (op == 'lsub' and nm == 'INBOX'):
                    return '%s returned %r which does not exist / is not subscribed' % (op, nm)
        elif op == 'status':
            cond, resp = w.run(0, g['StatusCommand'](w.tag(), g['Mailbox'](a), [g['StatusAttribute'](b'MESSAGES')]))
            want = 'OK' if (a_c == 'INBOX' or a_c in names) else 'NO'
        elif op == 'select':
            cond, resp = w.run(0, g['SelectCommand'](w.tag(), g['Mailbox'](a), g['ExtensionOptions'].empty()))
            want = 'OK' if (a_c == 'INBOX' or a_c in names) else 'NO'
        if cond != want:
            return '%s %r %r answered %s, model says %s' % (op, a, b, cond, want)
        # the store agrees with the model after every command
        real = set(w.mset._set.keys())
        if real != names:
            return 'after %s %r %r: mailboxes %r, model %r' % (op, a, b, sorted(real), sorted(names))
        if cond == 'NO' and (names, subs) != before:
            return 'NO changed the model'
    return None


def _h_program(d, ops, plen):
    def fn(eng):
        from pysymex import fresh_str, B, AND, Outcome
        script = []
        pats = []
        for t in range(d):
            op = ops[eng.choose('op%d' % t, len(ops))]
            a = b = pat = None
            if op in ('create', 'delete', 'rename', 'subscribe', 'status', 'select'):
                a = VOCAB[eng.choose('a%d' % t, len(VOCAB))]
            if op == 'rename':
                b = VOCAB[eng.choose('b%d' % t, len(VOCAB))]
            if op in ('list', 'lsub'):
                pat = fresh_str(eng, 'p%d_' % t, plen, hi=0x7f)
                for c in pat.items:
                    eng.add(c.t >= 1)
                pats.append(pat)
            script.append((op, a, b, pat))
        obligations = []

        def match(items, pat, icase):
            q = pat.items
            if icase:
                from pysymex import SymInt
                import z3
                q = [SymInt(z3.If(z3.And(c.t >= 97, c.t <= 122), c.t - 32, c.t)) for c in q]
            return spec_match(items, q)

        def wit(m):
            return {'script': [[op, a, b, None if p is None else p.concrete(m)] for op, a, b, p in script]}
        err = program(_g, _g['_sim'], script, lambda c, msg='': obligations.append(B(c)), match)
        if err is not None:
            return Outcome(False, witness=wit, info=err)
        return Outcome(AND(*obligations), witness=wit)
    return fn


# ---------------------------------------------------------------- (c) maildir error mapping
class _StubLayout:
    path = '/nonexistent'

    def __init__(self, exc):
        self.exc = exc

    def _raise(self, *a, **k):
        if self.exc is not None:
            raise self.exc
        raise FileNotFoundError('stub')
    get_folder = add_folder = remove_folder = rename_folder = _raise

    def get_path(self, name, delimiter):
        return '/nonexistent/' + name

    def list_folders(self, delimiter, top='INBOX'):
        return ['INBOX']


def maildir_mapping(g, op, excname):
    import errno
    from pymap.backend.maildir.mailbox import MailboxSet as MdSet
    from pymap.backend.session import BaseSession
    exc = {'FileExistsError': FileExistsError('x'), 'FileNotFoundError': FileNotFoundError('x'),
           'ENOTEMPTY': OSError(errno.ENOTEMPTY, 'not empty')}[excname]
    mset = MdSet(object(), _StubLayout(exc))

    class S(BaseSession):
        @property
        def config(self):
            return None

        @property
        def mailbox_set(self):
            return mset
    sess = S('u')
    try:
        if op == 'create':
            g['_sim'].run_coro(sess.create_mailbox('x')) if '_sim' in g else None
        elif op == 'delete':
            g['_sim'].run_coro(sess.delete_mailbox('x'))
        elif op == 'rename':
            g['_sim'].run_coro(sess.rename_mailbox('x', 'y'))
        elif op == 'select':
            g['_sim'].run_coro(sess.select_mailbox('x'))
    except g['ResponseError']:
        return None
    except Exception as exc2:   # noqa: BLE001
        return '%s: layout raised %s, the session layer let %s escape' % (op, excname, type(exc2).__name__)
    return None


DOCUMENTED = {'create': ['FileExistsError', 'FileNotFoundError'], 'delete': ['FileNotFoundError', 'ENOTEMPTY'],
              'rename': ['FileNotFoundError', 'FileExistsError'], 'select': ['FileNotFoundError']}


def _h_maildir_mapping():
    cases = [(op, e) for op, es in DOCUMENTED.items() for e in es]

    def fn(eng):
        from pysymex import Outcome
        i = eng.choose('case', len(cases))
        op, e = cases[i]
        err = maildir_mapping(_g, op, e)
        return Outcome(err is None, witness=lambda m: {'op': op, 'exc': e}, info=err)
    return fn


# ---------------------------------------------------------------- (d) maildir: two names never share a folder
def name_paths(layout_name, n1, n2):
    """folder paths the maildir layout resolves the two names to (None when the layout refuses the name)"""
    from pymap.backend.maildir.layout import DefaultLayout, FilesystemLayout
    cls = DefaultLayout if layout_name == '++' else FilesystemLayout
    layout = cls('/srv/mail/alice', lambda path, create=True: None)
    out = []
    for n in (n1, n2):
        try:
            out.append(layout.get_path(n, '/'))
        except (OSError, ValueError, KeyError):
            out.append(None)
    return out


def _h_injective(layout_name, l1, l2):
    """a mailbox name is a key: two different names the layout accepts must not resolve to the same folder (otherwise
    LIST shows another name than the one created and DELETE/RENAME of one name acts on the other)"""
    def fn(eng):
        from pysymex import fresh_str, B, Outcome
        n1 = fresh_str(eng, 'a', l1, hi=0x7f)
        n2 = fresh_str(eng, 'b', l2, hi=0x7f)
        wit = lambda m: {'layout': layout_name, 'n1': n1.concrete(m), 'n2': n2.concrete(m)}  # noqa: E731
        if l1 == l2 and bool(n1 == n2):
            return Outcome(True, witness=wit, site='same name')
        p1, p2 = name_paths(layout_name, n1, n2)
        if p1 is None or p2 is None:
            return Outcome(True, witness=wit, site='refused')
        if len(p1) != len(p2):
            return Outcome(True, witness=wit, site='different paths')
        return Outcome(~B(p1 == p2), witness=wit, site='compared', info='two names, one folder')
    return fn


MSG_DIRS = ('cur', 'new', 'tmp')


def inside_message_dir(p1, p2):
    """p1 is, or lies below, one of the message directories (cur/new/tmp) of the folder at p2"""
    for d in MSG_DIRS:
        pre = p2 + '/' + d
        if len(p1) == len(pre):
            if bool(p1 == pre):
                return d
        elif len(p1) > len(pre):
            if bool(p1[:len(pre) + 1] == pre + '/'):
                return d
    return None


def _h_nested(layout_name, l1, l2):
    """a folder must not live inside the message directories of another folder (or of INBOX): CREATE would answer OK
    for a mailbox LIST never shows, and its control files would be read as messages of the other folder"""
    def fn(eng):
        from pysymex import fresh_str, Outcome
        n1 = fresh_str(eng, 'a', l1, hi=0x7f)
        n2 = fresh_str(eng, 'b', l2, hi=0x7f) if l2 else 'INBOX'
        wit = lambda m: {'layout': layout_name, 'n1': n1.concrete(m), 'n2': n2.concrete(m) if l2 else 'INBOX'}  # noqa: E731
        p1, p2 = name_paths(layout_name, n1, n2)
        if p1 is None or p2 is None:
            return Outcome(True, witness=wit, site='refused')
        d = inside_message_dir(p1, p2)
        return Outcome(d is None, witness=wit, site='compared', info='a folder inside the %s directory of another' % d)
    return fn


def harnesses(tier):
    from pysymex.runner import Harness
    q = tier == 'quick'
    hs = []
    for layout in ('++', 'fs'):
        for l1, l2 in ([(3, 0), (4, 0), (5, 1)] if q else [(3, 0), (4, 0), (5, 0), (5, 1), (6, 2), (7, 3)]):
            hs.append(Harness('maildir_folder_in_message_dir[%s,len=%d,%d]' % (layout, l1, l2), _h_nested(layout, l1, l2),
                              {'layout': layout, 'name_lengths': [l1, l2 or 'INBOX'], 'characters': 'ASCII, symbolic'},
                              replay='nested', task_budget=60))
    for layout in ('++', 'fs'):
        for l1, l2 in ([(1, 1), (2, 2), (3, 3), (3, 2)] if q else [(1, 1), (2, 2), (3, 3), (3, 2), (4, 4), (4, 3), (5, 5)]):
            hs.append(Harness('maildir_names_injective[%s,len=%d,%d]' % (layout, l1, l2), _h_injective(layout, l1, l2),
                              {'layout': layout, 'name_lengths': [l1, l2], 'characters': 'ASCII, symbolic'},
                              replay='injective', task_budget=60))
    for nn, nl, ql in ([(1, 1, 2), (1, 2, 2), (1, 2, 3), (2, 1, 2)] if q else
                       [(1, 1, 2), (1, 2, 2), (1, 2, 3), (2, 1, 2), (1, 3, 3), (2, 2, 3), (1, 2, 4)]):
        hs.append(Harness('list_wildcards[names=%d,len=%d,pattern=%d]' % (nn, nl, ql), _h_wildcards(nn, nl, ql),
                          {'names': nn, 'name_len': nl, 'pattern_len': ql}, replay='wildcards', task_budget=60))
    for sl, tl in ([(1, 1), (2, 1), (3, 2)] if q else [(1, 1), (2, 1), (3, 2), (3, 3), (4, 2)]):
        hs.append(Harness('rename_inferiors[s=%d,t=%d]' % (sl, tl), _h_renames(sl, tl),
                          {'parent': '1 symbolic char', 'inferior_part': sl, 'target': tl}, replay='renames', task_budget=60))
    for d, ops, pl in ([(1, OPS, 2), (2, ['create', 'delete', 'rename', 'list'], 1)] if q else
                       [(1, OPS, 3), (2, OPS, 1), (3, ['create', 'delete', 'rename', 'list'], 1)]):
        hs.append(Harness('namespace_program[d=%d,ops=%d]' % (d, len(ops)), _h_program(d, ops, pl),
                          {'program_length': d, 'ops': ops, 'vocabulary': VOCAB, 'pattern_len': pl},
                          replay='program', task_budget=60))
    hs.append(Harness('maildir_error_mapping', _h_maildir_mapping(), {'cases': DOCUMENTED}, replay='mdmap'))
    return hs


def replay(harness, w):
    from checks import _sim
    g = _sim.bindings()
    g['_sim'] = _sim
    from pymap.listtree import ListTree
    from pymap.exceptions import ResponseError
    g.update(ListTree=ListTree, ResponseError=ResponseError)
    bad = []

    def check(c, msg=''):
        if not c:
            bad.append(msg or 'obligation failed')
    if harness == 'injective':
        n1 = ''.join(map(chr, w['n1'])) if not isinstance(w['n1'], str) else w['n1']
        n2 = ''.join(map(chr, w['n2'])) if not isinstance(w['n2'], str) else w['n2']
        p1, p2 = name_paths(w['layout'], n1, n2)
        if n1 != n2 and p1 is not None and p1 == p2:
            bad.append('the %s layout resolves both %r and %r to %s' % (w['layout'], n1, n2, p1))
        return {'violates': bool(bad), 'detail': bad[:3], 'category': 'two names, one folder (%s)' % w['layout']}
    if harness == 'nested':
        n1 = ''.join(map(chr, w['n1'])) if not isinstance(w['n1'], str) else w['n1']
        n2 = ''.join(map(chr, w['n2'])) if not isinstance(w['n2'], str) else w['n2']
        p1, p2 = name_paths(w['layout'], n1, n2)
        if p1 is not None and p2 is not None:
            d = inside_message_dir(p1, p2)
            if d is not None:
                bad.append('the %s layout puts mailbox %r at %s, inside the %s directory of %r' % (w['layout'], n1, p1, d, n2))
        return {'violates': bool(bad), 'detail': bad[:3], 'category': 'a folder inside a message directory (%s)' % w['layout']}
    if harness == 'wildcards':
        names = [''.join(chr(c) for c in n) for n in w['names']]
        query = ''.join(chr(c) for c in w['query'])
        tree = ListTree('/').update('INBOX', *names)
        listed = [e.name for e in tree.list_matching('', query) if e.exists]
        for s in names:
            exp = spec_match([ord(c) for c in s], [ord(c) for c in query])
            if exp != (s in listed):
                bad.append('LIST "" %r: %r listed=%s, RFC says %s' % (query, s, s in listed, exp))
    elif harness == 'renames':
        cs = lambda x: ''.join(chr(c) for c in x)  # noqa: E731
        p, s_, t = cs(w['p']), cs(w['s']), cs(w['t'])
        child = p + '/' + s_
        pairs = list(ListTree('/').update('INBOX', p, child).get_renames(p, t))
        want = [(p, t), (child, t + '/' + s_)]
        if pairs != want:
            bad.append('get_renames(%r, %r) = %r, expected %r' % (p, t, pairs, want))
    elif harness == 'program':
        script = [(op, a, b, None if p is None else ''.join(chr(c) for c in p)) for op, a, b, p in w['script']]

        def match(items, pat, icase):
            q = [ord(c) for c in (pat.upper() if icase else pat)]
            return spec_match(items, q)
        err = program(g, _sim, script, check, match)
        if err:
            bad.append(err)
    elif harness == 'mdmap':
        err = maildir_mapping(g, w['op'], w['exc'])
        if err:
            bad.append(err)
    return {'violates': bool(bad), 'detail': bad[:20], 'category': (bad[0] if bad else '')[:80]}


def classify(harness, w, res):
    det = res.get('detail') or []
    if isinstance(det, list) and det and all(isinstance(x, str) and x.startswith('LSUB-') for x in det):
        if any(x.startswith('LSUB-INBOX-UNSUBSCRIBED') for x in det):
            return 'C11-lsub-inbox-always'
        return 'C11-lsub-drops-nonexistent'
    return None

"""C12 - a read-only selection never changes the mailbox.

A session EXAMINEs INBOX (or SELECTs a backend-declared read-only mailbox) on
the real dict backend and issues a program of message commands with symbolic
arguments; afterwards the stored state of that mailbox (UIDs, permanent flags,
unclaimed \\Recent bits) must equal the state before, mutating commands must
have answered NO, and CLOSE must answer OK and deselect.
"""
from __future__ import annotations

ID = 'C12'
LEVEL = 'model_checking'
TIME_BUDGET = {'quick': 600, 'thorough': 3600}
EXPLANATION = (
    'Bounded symbolic execution of command programs inside a read-only '
    'selection through the real ConnectionState/BaseSession/dict backend; '
    'sequence/UID set numbers and the UID base are z3 integers, the command is a '
    'fork; the proof query per path states dump(before) == dump(after).')
FUNCTIONS = [
    'pymap.backend.session:BaseSession.update_flags', 'pymap.backend.session:BaseSession.expunge_mailbox',
    'pymap.backend.session:BaseSession.fetch_messages', 'pymap.backend.session:BaseSession.copy_messages',
    'pymap.backend.session:BaseSession.move_messages', 'pymap.backend.session:BaseSession.append_messages',
    'pymap.backend.session:BaseSession.select_mailbox', 'pymap.backend.session:BaseSession._pick_selected',
    'pymap.selected:SelectedSet.any_selected', 'pymap.backend.dict.mailbox:MailboxData.claim_recent',
    'pymap.imap.state:ConnectionState.do_fetch', 'pymap.imap.state:ConnectionState.do_store',
    'pymap.imap.state:ConnectionState.do_expunge', 'pymap.imap.state:ConnectionState.do_close',
    'pymap.imap.state:ConnectionState.do_copy', 'pymap.imap.state:ConnectionState.do_move',
    'pymap.imap.state:ConnectionState.do_append', 'pymap.imap.state:ConnectionState.do_select',
]
ASSUMPTIONS = ['m <= 3 messages, programs of <= 2 commands, one examining session (plus its own APPEND)',
               'COPY out of a read-only selection into another, writable mailbox is allowed (it does not touch the examined one)']
STUBS = ['coroutines driven with send(None)', 'sessions attached directly (login is C09)']
OUTSIDE = ['maildir', 'other sessions mutating concurrently (C02)']

_g: dict = {}
OPS = ['store', 'uidstore', 'expunge', 'uidexpunge', 'fetch_body', 'uidfetch_body', 'copy', 'move', 'uidmove',
       'append_self', 'close', 'noop', 'copy_self', 'uidcopy_self']


def setup() -> None:
    from checks import _sim
    _g.update(_sim.bindings())
    _g['_sim'] = _sim


def program(g, sim, base, m, mode, script, check):
    """mode: 'examine' (EXAMINE INBOX) | 'robox' (backend read-only mailbox, SELECT)"""
    w = sim.World(g, 1, base_uid=base, check=check)
    Seen, Deleted, Flagged = g['Seen'], g['Deleted'], g['Flagged']
    for i in range(m):
        w.append(0, flags=[Deleted] if i % 2 == 0 else [Flagged])   # no selection: stored as recent
    if mode == 'robox':
        w.mbx('INBOX')._readonly = True
    before = w.dump('INBOX')
    cond, _ = w.select(0, 'INBOX', readonly=(mode == 'examine'))
    if cond != 'OK':
        return 'selection answered %s' % cond
    if not w.states[0]._selected.readonly:
        return 'selection is not read-only'
    mid = w.dump('INBOX')
    if [r for _, _, r in mid] != [r for _, _, r in before]:
        return 'selecting read-only consumed \\Recent'
    appended = 0
    for op, a in script:
        selected = w.states[0]._selected is not None
        if op in ('store', 'uidstore'):
            fsel = {'SD': [Seen, Deleted], '': [], 'R': [g['Recent']], 'K': [g['Flag'](b'$Forwarded')]}[a.get('flags', 'SD')]
            cond, _ = w.store(0, a['set'], fsel, a['mode'], uid=(op == 'uidstore'))
            want = ('NO',) if selected else ('BAD',)
        elif op == 'expunge':
            cond, _ = w.expunge(0)
            want = ('NO',) if selected else ('BAD',)
        elif op == 'uidexpunge':
            cond, _ = w.expunge(0, a['set'])
            want = ('NO',) if selected else ('BAD',)
        elif op in ('fetch_body', 'uidfetch_body'):
            cond, _ = w.fetch(0, a['set'], [b'BODY[]'], uid=(op == 'uidfetch_body'))
            want = ('OK',) if selected else ('BAD',)
        elif op == 'copy':
            cond, _ = w.copy(0, a['set'], 'Other')
            want = ('OK',) if selected else ('BAD',)
        elif op in ('copy_self', 'uidcopy_self'):
            # COPY with the selected mailbox itself as destination
            if mode != 'robox':
                continue       # an EXAMINEd mailbox that is writable may receive copies (they are counted elsewhere)
            cond, _ = w.copy(0, a['set'], 'INBOX', uid=(op == 'uidcopy_self'))
            want = ('NO',) if selected else ('BAD',)
        elif op in ('move', 'uidmove'):
            cond, _ = w.copy(0, a['set'], 'Other', uid=(op == 'uidmove'), move=True)
            want = ('NO', 'OK') if selected else ('BAD',)   # decided by the dump comparison below
        elif op == 'append_self':
            cond, _ = w.append(0, 'INBOX')
            if mode == 'robox':
                want = ('NO',)
            else:
                want = ('OK',)
                appended += 1
        elif op == 'close':
            cond, _ = w.close(0)
            want = ('OK',) if selected else ('BAD',)
            if selected and cond == 'OK' and w.states[0]._selected is not None:
                return 'CLOSE answered OK but the mailbox is still selected'
        elif op == 'noop':
            cond, _ = w.noop(0)
            want = ('OK',)
        elif op == 'check':
            cond, _ = w.check_cmd(0)
            want = ('OK',) if selected else ('BAD',)
        if cond not in want:
            return '%s answered %s, expected %s' % (op, cond, '/'.join(want))
    after = w.dump('INBOX')
    if len(after) != len(before) + appended:
        return 'message count changed: %d -> %d (+%d own appends)' % (len(before), len(after), appended)
    for (u0, f0, r0), (u1, f1, r1) in zip(before, after):
        check(u0 == u1, 'UID changed')
        if f0 != f1:
            return 'flags changed %r -> %r' % (sorted(map(bytes, f0)), sorted(map(bytes, f1)))
        if r0 != r1:
            return '\\Recent status of a stored message changed'
    for (u, f, r) in after[len(before):]:
        if not r:
            return 'a read-only session consumed \\Recent of a new message'
    return None


def _gen(eng, t, op, m, base):
    from pysymex import SymUid
    a = {}
    uidm = op.startswith('uid')
    if op in ('store', 'uidstore', 'uidexpunge', 'fetch_body', 'uidfetch_body', 'copy', 'move', 'uidmove', 'copy_self', 'uidcopy_self'):
        if uidm:
            mk = lambda nm: SymUid((base + eng.fresh_int('%s%d' % (nm, t), 0, m + 3)).t)  # noqa: E731
        else:
            mk = lambda nm: eng.fresh_int('%s%d' % (nm, t), 1, m + 3, cls=SymUid)  # noqa: E731
        sh = eng.choose('shape%d' % t, 3)
        a['set'] = [[mk('a')], [(mk('a'), mk('b'))], [(mk('a'), '*')]][sh]
    if op in ('store', 'uidstore'):
        a['mode'] = ['ADD', 'DELETE', 'REPLACE'][eng.choose('mode%d' % t, 3)]
        a['flags'] = ['SD', '', 'R', 'K'][eng.choose('flags%d' % t, 4)]
    return a


def _harness(m, d, mode, ops):
    def fn(eng):
        from pysymex import SymUid, B, AND, Outcome
        base = eng.fresh_int('base', 0, cls=SymUid)
        script = []
        for t in range(d):
            op = ops[eng.choose('op%d' % t, len(ops))]
            script.append((op, _gen(eng, t, op, m, base)))
        obligations = []

        def conc(x, mdl):
            if isinstance(x, tuple):
                return [conc(y, mdl) for y in x]
            if isinstance(x, (str, int)) or x is None:
                return x
            return x.eval(mdl)

        def wit(mdl):
            sc = []
            for op, a in script:
                aa = dict(a)
                if 'set' in aa:
                    aa['set'] = [conc(e, mdl) for e in aa['set']]
                sc.append([op, aa])
            return {'base': base.eval(mdl), 'm': m, 'mode': mode, 'script': sc}
        err = program(_g, _g['_sim'], base, m, mode, script, lambda c, msg='': obligations.append(B(c)))
        if err is not None:
            return Outcome(False, witness=wit, info=err)
        return Outcome(AND(*obligations), witness=wit)
    return fn


def harnesses(tier):
    from pysymex.runner import Harness
    if tier == 'quick':
        cfgs = [(2, 1, 'examine', OPS), (3, 1, 'examine', ['store', 'uidstore', 'uidexpunge', 'fetch_body', 'move']),
                (2, 1, 'robox', OPS), (2, 2, 'examine', ['store', 'fetch_body', 'append_self', 'close', 'move'])]
    else:
        cfgs = [(3, 1, 'examine', OPS), (3, 1, 'robox', OPS), (2, 2, 'examine', OPS), (2, 2, 'robox', OPS)]
    return [Harness('%s[m=%d,d=%d,ops=%d]' % (mode, m, d, len(ops)), _harness(m, d, mode, ops),
                    {'messages': m, 'program_length': d, 'selection': mode, 'ops': ops},
                    replay='program', task_budget=40) for m, d, mode, ops in cfgs]


def replay(harness, w):
    from checks import _sim
    g = _sim.bindings()
    bad = []

    def check(c, msg=''):
        if not c:
            bad.append(msg or 'obligation failed')
    script = []
    for op, a in w['script']:
        a = dict(a)
        if 'set' in a:
            a['set'] = [tuple(e) if isinstance(e, list) else e for e in a['set']]
        script.append((op, a))
    err = program(g, _sim, w['base'], w['m'], w['mode'], script, check)
    if err:
        bad.append(err)
    return {'violates': bool(bad), 'detail': bad[:3], 'category': (bad[0] if bad else '')[:70]}


def classify(harness, w, res):
    return None

"""C13 - SEARCH returns exactly the matching messages.

SEARCH / UID SEARCH programs (every non-text key alone and NOT / OR / keyset
combinations up to a nesting depth) run through the real
ConnectionState.do_search -> BaseSession.search_mailbox -> SearchCriteriaSet /
SearchCriteria.of / criteria classes on the dict backend.  Key operands
(sequence-set numbers, UID-set numbers, sizes, dates) are symbolic; for each
message of the view the harness states "returned <=> RFC 3501 6.4.4 says it
matches" as one proof obligation over the same symbolic operands.
"""
from __future__ import annotations

ID = 'C13'
LEVEL = 'model_checking'
TIME_BUDGET = {'quick': 900, 'thorough': 5400}
EXPLANATION = (
    'Bounded symbolic execution of the real search code: operands of SEQSET/UID/'
    'SMALLER/LARGER/BEFORE/ON/SINCE keys are z3 integers (date = ordinal day), the '
    'UID base is an unbounded z3 integer, message flags/sizes/dates are concrete but '
    'differ per message and flag assignments are enumerated; the search program '
    'shape is enumerated (all keys, NOT/OR/keyset to the stated depth); the '
    'obligation per (program, message) is impl_match == spec_match.')
FUNCTIONS = [
    'pymap.search:SearchCriteria.of', 'pymap.search:SearchCriteriaSet.sequence_set',
    'pymap.search:SearchCriteriaSet.matches', 'pymap.search:InverseSearchCriteria.matches',
    'pymap.search:OrSearchCriteria.matches', 'pymap.search:SequenceSetSearchCriteria.__init__',
    'pymap.search:SequenceSetSearchCriteria.matches', 'pymap.search:HasFlagSearchCriteria.matches',
    'pymap.search:NewSearchCriteria.matches', 'pymap.search:DateSearchCriteria.matches',
    'pymap.search:SizeSearchCriteria.matches', 'pymap.backend.session:BaseSession.search_mailbox',
    'pymap.backend.mailbox:MailboxDataInterface.find', 'pymap.imap.state:ConnectionState.do_search',
    'pymap.parsing.specials.sequenceset:SequenceSet._get_range',
]
ASSUMPTIONS = ['view of 3 messages (quick) / 4 (thorough); program depth <= 2 / 3',
               'header/text keys (BODY TEXT HEADER FROM TO CC BCC SUBJECT SENT*) need the email package and regex on '
               'parsed text: outside this check',
               'a message another session has expunged but this session has not been told about may or may not be returned']
STUBS = ['symbolic dates are datetime subclass instances whose .date() yields a symbolic ordinal']
OUTSIDE = ['BODY/TEXT/HEADER/address/subject keys', 'sent-date keys (Date header parsing)', 'CHARSET handling (C06)']

_g: dict = {}


def setup() -> None:
    from pysymex.core import SymInt
    from pysymex import symbytes
    SymInt.HASH_OK = True        # SearchKey/SequenceSet hashes (frozenset of keys); compared by hash in pymap
    symbytes.SymBytes.HASH_OK = True
    from checks import _sim
    _g.update(_sim.bindings())
    from pymap.frozen import frozenlist
    from pymap.parsing.commands import Commands
    from pymap.parsing import Params
    _g.update(locals())
    _g['_sim'] = _sim


# ---- symbolic date --------------------------------------------------------
def make_date_types():
    import datetime as _dt

    class SymD:
        """date with (possibly symbolic) ordinal"""
        def __init__(self, o):
            self.o = o

        def _o(self, other):
            return other.o if isinstance(other, SymD) else other.toordinal()

        def __lt__(self, other): return self.o < self._o(other)
        def __le__(self, other): return self.o <= self._o(other)
        def __gt__(self, other): return self.o > self._o(other)
        def __ge__(self, other): return self.o >= self._o(other)
        def __eq__(self, other): return self.o == self._o(other)
        def __ne__(self, other): return self.o != self._o(other)
        __hash__ = None

    class SymDT(_dt.datetime):
        def __new__(cls, o):
            self = _dt.datetime.__new__(cls, 2000, 1, 1)
            self._o = o
            return self

        def date(self):
            return SymD(self._o)

        def __hash__(self):
            return 7
    return SymD, SymDT


# ---- key language ----------------------------------------------------------
FLAG_KEYS = ['ALL', 'ANSWERED', 'UNANSWERED', 'DELETED', 'UNDELETED', 'DRAFT', 'UNDRAFT', 'FLAGGED', 'UNFLAGGED',
             'RECENT', 'OLD', 'SEEN', 'UNSEEN', 'NEW']
LEAVES = FLAG_KEYS + ['SEQ1', 'SEQR', 'SEQSTAR', 'UID1', 'UIDR', 'UIDSTAR', 'SMALLER', 'LARGER', 'BEFORE', 'ON', 'SINCE']
REPS = ['SEEN', 'UNDELETED', 'NEW', 'SEQR', 'UIDR', 'SMALLER', 'SINCE']   # one representative per family


def build_key(g, node, ops, SymDT):
    """node: leaf name | ('NOT', n) | ('OR', a, b) | ('SET', [n..]); ops: dict leaf-instance -> operands"""
    SK = g['SearchKey']
    SS = g['SequenceSet']
    if isinstance(node, tuple):
        if node[0] == 'NOT':
            k = build_key(g, node[1], ops, SymDT)
            return SK(k.key, k.filter, not k.inverse)
        if node[0] == 'OR':
            return SK(b'OR', (build_key(g, node[1], ops, SymDT), build_key(g, node[2], ops, SymDT)))
        if node[0] == 'SET':
            return SK(b'KEYSET', g['frozenlist']([build_key(g, n, ops, SymDT) for n in node[1]]))
    name, inst = node if isinstance(node, list) else (node, None)
    o = ops.get(id(node)) if inst is None else ops[inst]
    if name in FLAG_KEYS:
        return SK(name.encode())
    mx = SS._max
    if name in ('SEQ1', 'UID1'):
        return SK(b'SEQSET', SS([o[0]], name.startswith('UID')))
    if name in ('SEQR', 'UIDR'):
        return SK(b'SEQSET', SS([(o[0], o[1])], name.startswith('UID')))
    if name in ('SEQSTAR', 'UIDSTAR'):
        return SK(b'SEQSET', SS([(o[0], mx)], name.startswith('UID')))
    if name in ('SMALLER', 'LARGER'):
        return SK(name.encode(), o[0])
    return SK(name.encode(), SymDT(o[0]))


def render_program(program, ops):
    """IMAP text of a search program (items; numbers may be symbolic and are rendered digit by digit)"""
    def num(x):
        if isinstance(x, int):
            return list(b'%d' % x)
        from pysymex.symbytes import render_int
        return list(render_int(x, 6))

    def node_items(node):
        if isinstance(node, tuple):
            if node[0] == 'NOT':
                return list(b'NOT ') + node_items(node[1])
            if node[0] == 'OR':
                return list(b'OR ') + node_items(node[1]) + [32] + node_items(node[2])
            if node[0] == 'SET':
                out = [40]
                for i, n in enumerate(node[1]):
                    out += ([32] if i else []) + node_items(n)
                return out + [41]
        name, inst = node
        o = ops[inst]
        if name in FLAG_KEYS:
            return list(name.encode())
        pre = list(b'UID ') if name.startswith('UID') else []
        if name in ('SEQ1', 'UID1'):
            return pre + num(o[0])
        if name in ('SEQR', 'UIDR'):
            return pre + num(o[0]) + [58] + num(o[1])
        if name in ('SEQSTAR', 'UIDSTAR'):
            return pre + num(o[0]) + [58, 42]
        if name in ('SMALLER', 'LARGER'):
            return list(name.encode()) + [32] + num(o[0])
        raise ValueError('not rendered: %s' % name)
    out = []
    for i, node in enumerate(program):
        out += ([32] if i else []) + node_items(node)
    return out


WIRE_LEAVES = ['SEEN', 'NEW', 'SEQ1', 'SEQR', 'SEQSTAR', 'UID1', 'UIDR', 'UIDSTAR', 'SMALLER']


def wire_programs():
    inst = [1000]

    def leaf(name):
        inst[0] += 1
        return [name, inst[0]]
    out = []
    for name in WIRE_LEAVES:
        out.append([leaf(name)])
        out.append([('NOT', leaf(name))])
    for a, b in [('SEQR', 'UIDR'), ('SEEN', 'SEQR'), ('SEQ1', 'SMALLER'), ('UID1', 'SEQSTAR')]:
        out.append([('OR', leaf(a), leaf(b))])
        out.append([leaf(a), leaf(b)])
        out.append([('SET', [leaf(a), ('NOT', leaf(b))])])
    # search-key = "NOT" SP search-key: negations nest (NOT NOT k is k)
    for name in ('SEEN', 'SEQR', 'UID1'):
        out.append([('NOT', ('NOT', leaf(name)))])
        out.append([('NOT', ('NOT', ('NOT', leaf(name))))])
    return out


def twin_programs():
    """a sequence-set key and a UID-set key side by side (the engine's constant hash for symbolic values cannot tell
    hash-compared keys apart, so these run with concrete operands, where hashing is the real one)"""
    inst = [2000]

    def leaf(name):
        inst[0] += 1
        return [name, inst[0]]
    out = []
    for a, b in [('SEQ1', 'UID1'), ('SEQR', 'UIDR'), ('SEQSTAR', 'UIDSTAR')]:
        out.append([leaf(a), leaf(b)])
        out.append([leaf(b), leaf(a)])
        out.append([('OR', leaf(a), leaf(b))])
        out.append([('OR', leaf('SEEN'), leaf(a)), ('OR', leaf('SEEN'), leaf(b))])
    return out


def _harness_wire_concrete(flagsets):
    progs = twin_programs()
    SymD, SymDT = make_date_types()

    def fn(eng):
        from pysymex import Outcome
        pi = eng.choose('prog', len(progs))
        program = progs[pi]
        base = 2
        uidcmd = eng.flip('uidcmd')
        n = len(flagsets)
        a = 1 + eng.choose('a', n + base + 1)
        b = 1 + eng.choose('b', n + base + 1)
        same = eng.flip('same_text')
        ops = {}
        for name, inst in leaves(('SET', program), []):
            if name.startswith('SEQ'):
                ops[inst] = [a, b]
            elif name.startswith('UID'):
                ops[inst] = [a, b] if same else [a + 1, b + 2]
            else:
                ops[inst] = []
        bad = []
        w = {'prog': pi, 'base': base, 'uidcmd': uidcmd, 'flagsets': flagsets, 'wire': True, 'twin': True,
             'ops': {str(k): v for k, v in ops.items()}}
        err = scenario(_g, _g['_sim'], base, flagsets, program, ops, uidcmd, False,
                       lambda c, msg='': bad.append(msg or 'obligation failed') if not bool(c) else None, SymDT,
                       wire=lambda items: memoryview(bytes(items)))
        if err is not None:
            bad.append(err)
        return Outcome(not bad, witness=lambda m: w, info=(bad or [None])[0])
    return fn


def _harness_wire(flagsets):
    progs = wire_programs()
    SymD, SymDT = make_date_types()

    def fn(eng):
        from pysymex import SymUid, SymBytes, B, AND, Outcome
        pi = eng.choose('prog', len(progs))
        program = progs[pi]
        base = eng.fresh_int('base', 0, 998, cls=SymUid)
        uidcmd = eng.flip('uidcmd')
        ops = {}
        n = len(flagsets)
        for name, inst in leaves(('SET', program), []):
            if name.startswith('SEQ'):
                ops[inst] = [eng.fresh_int('o%d_a' % inst, 1, n + 2, cls=SymUid),
                             eng.fresh_int('o%d_b' % inst, 1, n + 2, cls=SymUid)]
            elif name.startswith('UID'):
                ops[inst] = [SymUid((base + eng.fresh_int('o%d_a' % inst, 1, n + 2)).t),
                             SymUid((base + eng.fresh_int('o%d_b' % inst, 1, n + 2)).t)]
            elif name in ('SMALLER', 'LARGER'):
                ops[inst] = [eng.fresh_int('o%d' % inst, 0, n + 2)]
            else:
                ops[inst] = []
        obligations = []

        def wit(m):
            return {'prog': pi, 'base': base.eval(m), 'uidcmd': uidcmd, 'flagsets': flagsets, 'wire': True,
                    'ops': {str(k): [x.eval(m) for x in v] for k, v in ops.items()}}
        err = scenario(_g, _g['_sim'], base, flagsets, program, ops, uidcmd, False,
                       lambda c, msg='': obligations.append(B(c)), SymDT, wire=lambda items: SymBytes(items, 'memoryview'))
        if err is not None:
            return Outcome(False, witness=wit, info=err)
        return Outcome(AND(*obligations), witness=wit)
    return fn


def _between(a, b, i):
    return ((a <= i) & (i <= b)) | ((b <= i) & (i <= a))


def spec(node, ops, msg, ctx):
    """RFC 3501 6.4.4 semantics as a non-forking term.  msg: dict(seq, uid, flags(set of names), size, day)"""
    if isinstance(node, tuple):
        if node[0] == 'NOT':
            r = spec(node[1], ops, msg, ctx)
            return (not r) if isinstance(r, bool) else ~r
        if node[0] == 'OR':
            return spec(node[1], ops, msg, ctx) | spec(node[2], ops, msg, ctx)
        if node[0] == 'SET':
            r = True
            for n in node[1]:
                r = r & spec(n, ops, msg, ctx)
            return r
    name, inst = node
    o = ops[inst]
    f = msg['flags']
    if name == 'ALL':
        return True
    table = {'ANSWERED': 'A', 'DELETED': 'D', 'DRAFT': 'T', 'FLAGGED': 'F', 'RECENT': 'R', 'SEEN': 'S'}
    if name in table:
        return table[name] in f
    if name.startswith('UN') and name[2:] in table:
        return table[name[2:]] not in f
    if name == 'OLD':
        return 'R' not in f
    if name == 'NEW':
        return 'R' in f and 'S' not in f
    if name == 'SEQ1':
        return o[0] == msg['seq']
    if name == 'SEQR':
        return _between(o[0], o[1], msg['seq'])
    if name == 'SEQSTAR':
        return _between(o[0], ctx['n'], msg['seq'])
    if name == 'UID1':
        return o[0] == msg['uid']
    if name == 'UIDR':
        return _between(o[0], o[1], msg['uid'])
    if name == 'UIDSTAR':
        return _between(o[0], ctx['maxuid'], msg['uid'])
    if name == 'SMALLER':
        return msg['size'] < o[0]
    if name == 'LARGER':
        return msg['size'] > o[0]
    if name == 'BEFORE':
        return msg['day'] < o[0]
    if name == 'ON':
        return msg['day'] == o[0]
    if name == 'SINCE':
        return msg['day'] >= o[0]
    raise ValueError(name)


def leaves(node, out):
    if isinstance(node, tuple):
        if node[0] == 'SET':
            for n in node[1]:
                leaves(n, out)
        else:
            for n in node[1:]:
                leaves(n, out)
    else:
        out.append(node)
    return out


def scenario(g, sim, base, flagsets, program, ops, uidcmd, hidden, check, SymDT, wire=None):
    """flagsets: list of strings over SDFAT (+R via recent); program: list of top-level nodes"""
    import datetime as _dt
    w = sim.World(g, 2, base_uid=base, check=check)
    FL = {'S': g['Seen'], 'D': g['Deleted'], 'F': g['Flagged'], 'A': g['Answered'], 'T': g['Draft']}
    msgs = []
    for i, fs in enumerate(flagsets):
        lit = b'x' * (i + 1)
        # written day != UTC day for the first two (RFC 3501: dates compare "disregarding time and timezone")
        tzs = [(23, 30, -5), (0, 30, 2), (12, 0, 0), (23, 59, -11)]
        hh, mm, off = tzs[i % len(tzs)]
        when = _dt.datetime(2020, 1, 10 + 2 * i, hh, mm, tzinfo=_dt.timezone(_dt.timedelta(hours=off)))
        m = g['AppendMessage'](lit, when, frozenset(FL[c] for c in fs))
        cond, resp = w.run(0, g['AppendCommand'](w.tag(), g['Mailbox']('INBOX'), [m]))
        msgs.append({'uid': list(resp.code.uids)[0], 'flags': set(fs), 'size': len(lit),
                     'day': when.date().toordinal()})
    w.select(0)          # session 0 claims \\Recent for all
    for m in msgs:
        m['flags'].add('R')
    w.select(1)
    if hidden:
        # session 1 expunges message 1 without session 0 being told
        w.store(1, [1], [g['Deleted']], 'ADD', silent=True)
        w.expunge(1, [msgs[0]['uid']])
    view = list(w.server_view(0))
    for seq, (m, u) in enumerate(zip(msgs, view), 1):
        m['seq'] = seq
    ctx = {'n': len(view), 'maxuid': view[-1] if view else 0}
    if wire is not None:
        # the program goes over the wire: rendered as a command line and parsed by the real command parser
        line = list(b'a UID SEARCH ' if uidcmd else b'a SEARCH ') + render_program(program, ops) + [13, 10]
        cmd, rest = g['Commands']().parse(wire(line), g['Params']())
        want_cls = g['UidSearchCommand'] if uidcmd else g['SearchCommand']
        if type(cmd) is not want_cls:
            return 'the rendered program did not parse as %s: %s' % (want_cls.__name__, type(cmd).__name__)
        cond, resp = w.run(0, cmd)
    else:
        keys = [build_key(g, node, ops, SymDT) for node in program]
        cls = g['UidSearchCommand'] if uidcmd else g['SearchCommand']
        cond, resp = w.run(0, cls(w.tag(), keys, None))
    if cond != 'OK':
        return 'SEARCH answered %s' % cond
    got = None
    for r in resp._untagged:
        if isinstance(r, g['SearchResponse']):
            got = list(r.seqs)
        if isinstance(r, g['ExpungeResponse']) and not uidcmd:
            return 'EXPUNGE sent in reply to non-UID SEARCH'
    if got is None:
        return 'no SEARCH response'
    for m in msgs:
        ident = m['uid'] if uidcmd else m['seq']
        included = False
        for x in got:
            if bool(x == ident):
                included = True
                break
        want = True
        for node in program:
            want = want & spec(node, ops, m, ctx)
        if hidden and m is msgs[0]:
            continue     # expunged elsewhere, not yet announced: either answer is acceptable
        check((want == included) if not isinstance(want, bool) else (want == included),
              'message seq %d returned=%s' % (m['seq'], included))
    # nothing outside the view
    if len(got) > len(msgs):
        return 'more results than messages'
    return None


def programs(depth, q):
    inst = [0]

    def leaf(name):
        inst[0] += 1
        return [name, inst[0]]
    out = []
    for name in LEAVES:
        out.append([leaf(name)])
        out.append([('NOT', leaf(name))])
    reps = REPS if not q else ['SEEN', 'NEW', 'SEQR', 'UIDR', 'SMALLER', 'SINCE']
    for a in reps:
        for b in reps:
            if a <= b:
                out.append([('OR', leaf(a), leaf(b))])
                if a != b:
                    # top-level conjunction (two keys of the same family would be told apart only by
                    # hash(SearchKey), which the engine's constant symbolic hash cannot model)
                    out.append([leaf(a), leaf(b)])
                out.append([('SET', [leaf(a), ('NOT', leaf(b))])])
    out.append([('NOT', ('NOT', leaf('SEEN')))])
    out.append([('NOT', ('OR', ('NOT', leaf('SEEN')), ('NOT', leaf('SEQR'))))])
    if depth >= 3:
        for a in reps:
            for b in reps:
                out.append([('OR', ('NOT', leaf(a)), ('SET', [leaf(b), ('OR', leaf('UIDR'), leaf('SMALLER'))]))])
                out.append([('NOT', ('SET', [leaf(a), ('NOT', ('OR', leaf(b), leaf('SEQSTAR')))]))])
    return out


def _harness(progs, flagsets, hidden):
    SymD, SymDT = make_date_types()

    def fn(eng):
        from pysymex import SymUid, B, AND, Outcome
        pi = eng.choose('prog', len(progs))
        program = progs[pi]
        base = eng.fresh_int('base', 0, cls=SymUid)
        uidcmd = eng.flip('uidcmd')
        ops = {}
        n = len(flagsets)
        for name, inst in leaves(('SET', program), []):
            if name.startswith('SEQ'):
                ops[inst] = [eng.fresh_int('o%d_a' % inst, 1, n + 2, cls=SymUid),
                             eng.fresh_int('o%d_b' % inst, 1, n + 2, cls=SymUid)]
            elif name.startswith('UID'):
                ops[inst] = [SymUid((base + eng.fresh_int('o%d_a' % inst, 0, n + 2)).t),
                             SymUid((base + eng.fresh_int('o%d_b' % inst, 0, n + 2)).t)]
            elif name in ('SMALLER', 'LARGER'):
                ops[inst] = [eng.fresh_int('o%d' % inst, 0, n + 2)]
            elif name in ('BEFORE', 'ON', 'SINCE'):
                ops[inst] = [eng.fresh_int('o%d' % inst, 737430, 737460)]
            else:
                ops[inst] = []
        obligations = []

        def wit(m):
            return {'prog': pi, 'base': base.eval(m), 'uidcmd': uidcmd, 'hidden': hidden, 'flagsets': flagsets,
                    'ops': {str(k): [x.eval(m) for x in v] for k, v in ops.items()}}
        err = scenario(_g, _g['_sim'], base, flagsets, program, ops, uidcmd, hidden,
                       lambda c, msg='': obligations.append(B(c)), SymDT)
        if err is not None:
            return Outcome(False, witness=wit, info=err)
        return Outcome(AND(*obligations), witness=wit)
    return fn


_PROGS = {}


# ------------------------------------------------------------------ BODY / TEXT
# re.escape of symbolic bytes is not modelled, so the search strings and the message texts come from a small concrete
# vocabulary; which word sits where in which message and which key is asked is drawn by the engine.
BT_WORDS = ['alpha', 'bravo', 'Quagga']
BT_PLACES = ['nowhere', 'subject', 'other_header', 'body', 'header_and_body', 'attachment_header', 'attachment_text']


def body_text_message(word, place):
    hdr = b'From: a@b\r\n'
    body = b'plain text\r\n'
    w = word.encode()
    if place in ('subject', 'header_and_body'):
        hdr += b'Subject: about ' + w + b'\r\n'
    if place == 'other_header':
        hdr += b'X-Thing: ' + w + b'\r\n'
    if place in ('body', 'header_and_body'):
        body = b'some ' + w.upper() + b' here\r\n'
    if place in ('attachment_header', 'attachment_text'):
        hdr += b'Content-Type: multipart/mixed; boundary=zz\r\n'
        part_hdr = b'Content-Type: text/plain\r\n'
        part_body = b'inner\r\n'
        if place == 'attachment_header':
            part_hdr += b'Content-Description: ' + w + b'\r\n'
        else:
            part_body = b'inner ' + w + b'\r\n'
        body = b'--zz\r\n' + part_hdr + b'\r\n' + part_body + b'--zz--\r\n'
    return hdr + b'\r\n' + body


def body_text(g, sim, places, key, word, uidcmd):
    """two messages, the word placed as drawn; SEARCH BODY / TEXT <word>: BODY looks at the body of the message only
    (the MIME headers of its parts are body), TEXT at header or body (RFC 3501 6.4.4); case-insensitive"""
    w = sim.World(g, 1)
    for pl in places:
        w.append(0, literal=body_text_message(BT_WORDS[0] if False else word, pl))
    w.select(0)
    line = b'a %sSEARCH %s "%s"\r\n' % (b'UID ' if uidcmd else b'', key.encode(), word.lower().encode())
    cmd, rest = g['Commands']().parse(memoryview(line), g['Params']())
    cond, resp = w.run(0, cmd)
    if cond != 'OK':
        return 'SEARCH answered %s' % cond
    got = None
    for r in resp._untagged:
        if isinstance(r, g['SearchResponse']):
            got = sorted(int(x) for x in r.seqs)
    if got is None:
        return 'no SEARCH response'
    in_body = ('body', 'header_and_body', 'attachment_header', 'attachment_text')
    in_text = in_body + ('subject', 'other_header')
    view = w.server_view(0)
    want = []
    for i, pl in enumerate(places):
        if pl in (in_body if key == 'BODY' else in_text):
            want.append(int(view[i]) if uidcmd else i + 1)
    if got != sorted(want):
        return 'SEARCH %s %r with the word in %r returned %r, expected %r' % (key, word.lower(), places, got, sorted(want))
    return None


def _h_body_text():
    def fn(eng):
        from pysymex import Outcome
        places = [BT_PLACES[eng.choose('p%d' % i, len(BT_PLACES))] for i in range(2)]
        key = ['BODY', 'TEXT'][eng.choose('key', 2)]
        word = BT_WORDS[eng.choose('word', len(BT_WORDS))]
        uidcmd = bool(eng.flip('uid'))
        err = body_text(_g, _g['_sim'], places, key, word, uidcmd)
        return Outcome(err is None, witness=lambda m: {'places': places, 'key': key, 'word': word, 'uidcmd': uidcmd}, info=err)
    return fn


def harnesses(tier):
    from pysymex.runner import Harness
    q = tier == 'quick'
    depth = 2 if q else 3
    progs = programs(depth, q)
    _PROGS[tier] = progs
    fsets = [['', 'S', 'SD'], ['F', 'A', 'T']] if q else [['', 'S', 'SD', 'F'], ['FA', 'T', 'S', ''], ['D', 'D', 'SA', 'F']]
    hs = []
    for i, fs in enumerate(fsets):
        hs.append(Harness('search[flags=%s]' % ','.join(x or '-' for x in fs), _harness(progs, fs, False),
                          {'messages': len(fs), 'programs': len(progs), 'depth': depth, 'tier': tier},
                          replay='search:%s' % tier, task_budget=40))
    hs.append(Harness('search_over_the_wire', _harness_wire(fsets[0]),
                      {'messages': len(fsets[0]), 'programs': len(wire_programs()),
                       'what': 'program rendered as SEARCH / UID SEARCH text with symbolic numbers, parsed by the real parser'},
                      replay='wire', task_budget=60))
    hs.append(Harness('search_over_the_wire_twin_keys', _harness_wire_concrete(fsets[0]),
                      {'messages': len(fsets[0]), 'programs': len(twin_programs()), 'operands': 'concrete, drawn by the engine',
                       'what': 'a sequence-set key and a UID-set key with the same or different text, side by side'},
                      replay='wire', task_budget=60))
    hs.append(Harness('body_text_keys', _h_body_text(),
                      {'messages': 2, 'word_places': BT_PLACES, 'keys': ['BODY', 'TEXT'], 'words': BT_WORDS,
                       'what': 'concrete vocabulary (re.escape of symbolic bytes is not modelled); combination drawn by the engine'},
                      replay='bodytext', task_budget=60))
    hs.append(Harness('search_hidden_expunge', _harness(progs, fsets[0], True),
                      {'messages': len(fsets[0]), 'programs': len(progs), 'hidden_expunged': 1},
                      replay='search:%s' % tier, task_budget=40))
    return hs


def replay(harness, w):
    from checks import _sim
    g = _sim.bindings()
    from pymap.frozen import frozenlist
    g['frozenlist'] = frozenlist
    if harness == 'bodytext':
        from pymap.parsing.commands import Commands
        from pymap.parsing import Params
        g.update({'Commands': Commands, 'Params': Params})
        err = body_text(g, _sim, w['places'], w['key'], w['word'], w['uidcmd'])
        return {'violates': err is not None, 'detail': err, 'category': 'SEARCH %s: word in %s' % (w['key'], '/'.join(w['places']))}
    if harness == 'wire':
        from pymap.parsing.commands import Commands
        from pymap.parsing import Params
        g.update({'Commands': Commands, 'Params': Params})
        SymD, SymDT = make_date_types()
        bad = []
        ops = {int(k): v for k, v in w['ops'].items()}
        prog = (twin_programs() if w.get('twin') else wire_programs())[w['prog']]
        err = scenario(g, _sim, w['base'], w['flagsets'], prog, ops, w['uidcmd'], False,
                       lambda c, msg='': bad.append(msg or 'obligation failed') if not c else None, SymDT,
                       wire=lambda items: memoryview(bytes(items)))
        if err:
            bad.append(err)
        return {'violates': bool(bad), 'detail': bad[:3] + [repr(prog), 'uidcmd=%s' % w['uidcmd']], 'category': 'wire ' + repr(prog)[:60]}
    tier = harness.split(':')[1]
    progs = programs(2 if tier == 'quick' else 3, tier == 'quick')
    SymD, SymDT = make_date_types()
    bad = []

    def check(c, msg=''):
        if not c:
            bad.append(msg or 'obligation failed')
    ops = {int(k): v for k, v in w['ops'].items()}
    err = scenario(g, _sim, w['base'], w['flagsets'], progs[w['prog']], ops, w['uidcmd'], w['hidden'], check, SymDT)
    if err:
        bad.append(err)
    return {'violates': bool(bad), 'detail': bad[:3] + [repr(progs[w['prog']])], 'category': repr(progs[w['prog']])[:70]}


def classify(harness, w, res):
    return None

"""C14 - no message is lost or half-applied when a command fails midway.

The real BaseSession.move_messages / copy_messages / append_messages /
expunge_mailbox and dict MailboxData.move / copy / append / delete run with
the mailbox read-write locks replaced by a stub whose acquisition *may
suspend* (a symbolic Boolean per acquisition - exactly what contention with a
second session causes).  At every suspension a symbolic Boolean decides
whether the command's task is cancelled there (client disconnect / task
cancellation).  After the fault, or after completion, the union of the source
and destination mailboxes is compared with the messages that existed.
"""
from __future__ import annotations

ID = 'C14'
LEVEL = 'fault_enumeration'
TIME_BUDGET = {'quick': 600, 'thorough': 3600}
EXPLANATION = (
    'Fault schedules as solver variables: one Boolean "suspends here" per lock '
    'acquisition and one Boolean "cancelled here" per suspension (at most one '
    'cancellation), explored exhaustively by the engine; the UID base and the '
    'sequence numbers of the command are z3 integers; the conservation oracle is '
    'evaluated after every schedule.')
FUNCTIONS = [
    'pymap.backend.session:BaseSession.move_messages', 'pymap.backend.session:BaseSession.copy_messages',
    'pymap.backend.session:BaseSession.append_messages', 'pymap.backend.session:BaseSession.expunge_mailbox',
    'pymap.backend.dict.mailbox:MailboxData.move', 'pymap.backend.dict.mailbox:MailboxData.copy',
    'pymap.backend.dict.mailbox:MailboxData.append', 'pymap.backend.dict.mailbox:MailboxData.delete',
    'pymap.imap.state:ConnectionState.do_move', 'pymap.imap.state:ConnectionState.do_copy',
    'pymap.imap.state:ConnectionState.do_append', 'pymap.imap.state:ConnectionState.do_expunge',
]
ASSUMPTIONS = ['<= 2 messages per command, <= 8 suspension points, at most one cancellation per command',
               'a lock acquisition is the only place where the dict backend can be suspended (no other await yields)']
STUBS = ['mailbox read-write locks: acquisition may suspend (symbolic), no exclusion needed with a single running command',
         'the command coroutine is driven by the harness; cancellation = throwing CancelledError at a suspension']
OUTSIDE = ['process kill and the maildir rename / UID-list window (C15)', 'exceptions from storage calls (the dict '
           'backend has none)', 'more than 3 commands interleaving']

_g: dict = {}
OPS = ['move', 'uidmove', 'copy', 'append2', 'expunge']


def setup() -> None:
    from checks import _sim
    _g.update(_sim.bindings())
    _g['_sim'] = _sim


class _Suspend:
    def __await__(self):
        yield 'suspend'


class StubRW:
    """read-write lock whose acquisition may suspend"""

    def __init__(self, ctl):
        self.ctl = ctl

    def read_lock(self):
        return _Acq(self.ctl)

    def write_lock(self):
        return _Acq(self.ctl)


class _Acq:
    def __init__(self, ctl):
        self.ctl = ctl

    async def __aenter__(self):
        if self.ctl.may_suspend():
            await _Suspend()
        return None

    async def __aexit__(self, *a):
        return False


class Ctl:
    def __init__(self, pick):
        self.pick = pick
        self.active = False
        self.nsusp = 0
        self.cancelled_at = None
        self.suspended = 0

    def may_suspend(self):
        if not self.active or self.nsusp >= 8:
            return False
        self.nsusp += 1
        return self.pick('suspend')

    def cancel_here(self):
        if self.cancelled_at is not None:
            return False
        if self.pick('cancel'):
            self.cancelled_at = self.suspended
            return True
        return False


def drive(coro, ctl):
    """returns ('done', value) | ('cancelled', None) | ('error', exc)"""
    import asyncio
    ctl.active = True
    try:
        throw = None
        while True:
            try:
                if throw is not None:
                    y = coro.throw(throw)
                    throw = None
                else:
                    y = coro.send(None)
            except StopIteration as e:
                return 'done', e.value
            except asyncio.CancelledError:
                return 'cancelled', None
            if y == 'suspend':
                ctl.suspended += 1
                if ctl.cancel_here():
                    throw = asyncio.CancelledError()
            else:
                raise RuntimeError('unexpected suspension %r' % (y,))
    finally:
        ctl.active = False


def scenario(g, sim, base, op, a, b, pick, check):
    w = sim.World(g, 1, base_uid=base, check=check)
    marks = [g['Flag'](b'k%d' % i) for i in range(3)]
    for i in range(2):
        w.append(0, flags=[marks[i], g['Deleted']] if i == 0 else [marks[i]])
    w.select(0)
    ctl = Ctl(pick)
    for name in ('INBOX', 'Other'):
        w.mbx(name)._messages_lock = StubRW(ctl)
    st = w.states[0]

    def marks_in(name):
        out = []
        for uid, msg in w.mbx(name)._messages.items():
            for i, mk in enumerate(marks):
                if mk in msg.permanent_flags:
                    out.append(i)
        return out
    before = (sorted(marks_in('INBOX')), sorted(marks_in('Other')))
    elems = [(a, b)]
    if op in ('move', 'uidmove'):
        cls = g['UidMoveCommand'] if op == 'uidmove' else g['MoveCommand']
        cmd = cls(w.tag(), w.seqset(elems, op == 'uidmove'), g['Mailbox']('Other'))
    elif op == 'copy':
        cmd = g['CopyCommand'](w.tag(), w.seqset(elems, False), g['Mailbox']('Other'))
    elif op == 'append2':
        dt = g['datetime'](2020, 1, 1, tzinfo=g['timezone'].utc)
        msgs = [g['AppendMessage'](b'new', dt, frozenset([marks[2]])), g['AppendMessage'](b'new2', dt, frozenset([marks[2]]))]
        cmd = g['AppendCommand'](w.tag(), g['Mailbox']('INBOX'), msgs)
    else:
        cmd = g['ExpungeCommand'](w.tag())
    try:
        status, resp = drive(st.do_command(cmd), ctl)
    except g['ResponseError'] as exc:
        status, resp = 'done', exc.get_response(cmd.tag)
    ok = status == 'done' and isinstance(resp, g['ResponseOk'])
    inbox, other = sorted(marks_in('INBOX')), sorted(marks_in('Other'))
    fault = 'cancelled at suspension %s' % ctl.cancelled_at if status == 'cancelled' else status
    # conservation: every original message is in the source or the destination
    if op in ('move', 'uidmove', 'copy'):
        for i in (0, 1):
            if i not in inbox and i not in other:
                return '%s (%s): message %d is in neither mailbox' % (op, fault, i), 'lost-' + status
        if op in ('move', 'uidmove') and ok:
            for i in (0, 1):
                if i in inbox and i in other:
                    return 'completed MOVE left message %d in both mailboxes' % i, 'dup'
        if op == 'copy':
            if inbox != before[0]:
                return 'COPY changed the source', 'copysrc'
    if op == 'append2':
        n = inbox.count(2)
        if not ok and n != 0:
            return 'APPEND of 2 messages (%s) did not complete with OK but %d of them are stored' % (fault, n), 'partial-' + status
        if ok and n != 2:
            return 'APPEND of 2 messages answered OK but %d are stored' % n, 'append-count'
    if op == 'expunge':
        if ok and 0 in inbox:
            return 'EXPUNGE answered OK but the \\Deleted message is still there', 'expunge'
        if 1 not in inbox:
            return 'EXPUNGE (%s) removed a message that is not \\Deleted' % fault, 'expunge-wrong'
    if status == 'done' and not ok and (inbox, other) != before:
        return '%s answered NO/BAD but changed the mailboxes' % op, 'no-changed'
    return None, None


def _harness(ops):
    def fn(eng):
        from pysymex import SymUid, B, AND, Outcome
        op = ops[eng.choose('op', len(ops))]
        base = eng.fresh_int('base', 0, cls=SymUid)
        if op == 'uidmove':
            a = SymUid((base + eng.fresh_int('a', 0, 3)).t)
            b = SymUid((base + eng.fresh_int('b', 0, 3)).t)
        else:
            a = eng.fresh_int('a', 1, 3, cls=SymUid)
            b = eng.fresh_int('b', 1, 3, cls=SymUid)
        picks = []

        def pick(what):
            v = eng.flip('%s%d' % (what, len(picks)))
            picks.append(v)
            return v
        obligations = []
        wit = lambda m: {'op': op, 'base': base.eval(m), 'a': a.eval(m), 'b': b.eval(m), 'picks': picks}  # noqa: E731
        err, kind = scenario(_g, _g['_sim'], base, op, a, b, pick, lambda c, msg='': obligations.append(B(c)))
        if err is not None:
            return Outcome(False, witness=wit, info=err)
        return Outcome(AND(*obligations), witness=wit)
    return fn


# ---------------------------------------------------------------- the connection is dropped inside a command
# The byte stream of a command is cut at every position (the fault point is a solver-drawn index) and followed by end
# of stream, on the real connection loop.  A command that did not arrive completely must leave the mailboxes as they
# were; one that arrived completely has its full effect.  Literal contents are symbolic bytes.
STREAMS = ['multiappend {n+}', 'multiappend {n}', 'uid expunge', 'move', 'store']


def stream_items(kind, lit1, lit2):
    if kind == 0:
        return (list(b'a APPEND INBOX (\\Flagged) {%d+}\r\n' % len(lit1)) + list(lit1) + list(b' (\\Answered) {%d+}\r\n' % len(lit2))
                + list(lit2) + [13, 10])
    if kind == 1:
        return (list(b'a APPEND INBOX (\\Flagged) {%d}\r\n' % len(lit1)) + list(lit1) + list(b' (\\Answered) {%d}\r\n' % len(lit2))
                + list(lit2) + [13, 10])
    if kind == 2:
        return list(b'a UID EXPUNGE 1:3000\r\n')
    if kind == 3:
        return list(b'a MOVE 1:2 Other\r\n')
    return list(b'a STORE 1:2 +FLAGS.SILENT (\\Seen)\r\n')


def truncated(g, sim, conn_mod, kind, cut, lit1, lit2, mk=bytes):
    from pymap.backend.dict import Login
    from pymap.user import UserMetadata
    w = sim.World(g, 1)
    for i in range(2):
        w.append(0, flags=[g['Deleted']])
    cfg = w.config
    login = Login(cfg)
    login.users_dict['testuser'] = UserMetadata(cfg, 'testuser', password=cfg.hash_context.hash('testpass'))
    cfg.set_cache['testuser'] = (w.mset, w.fset)

    def conc(v):
        return v.lower_concrete() if hasattr(v, 'lower_concrete') else bytes(v)

    def snap():
        return {n: [(u, sorted(conc(f.value) for f in fl)) for u, fl, _ in w.dump(n)] for n in ('INBOX', 'Other')}
    before = snap()
    full = stream_items(kind, lit1, lit2)
    part = full[:cut]
    feed = [b'l LOGIN testuser testpass\r\n', b's SELECT INBOX\r\n']
    if part:
        feed.append(mk(part))
    tr, state, exc = conn_mod.run_imap(g, login, cfg, feed, local=True)
    after = snap()
    complete = cut == len(full)
    if not complete and after != before:
        return 'the connection was dropped after %d of %d bytes of the command and the mailboxes changed: %r -> %r' % (
            cut, len(full), before, after)
    if complete:
        if kind in (0, 1) and len(after['INBOX']) != len(before['INBOX']) + 2:
            return 'the complete APPEND of two messages stored %d' % (len(after['INBOX']) - len(before['INBOX']))
        if kind == 2 and after['INBOX']:
            return 'the complete UID EXPUNGE left messages'
        if kind == 3 and (after['INBOX'] or len(after['Other']) != 2):
            return 'the complete MOVE did not move both messages'
    return None


def _h_truncated(kind, nlit):
    def fn(eng):
        from pysymex import fresh_bytes, SymBytes, Outcome
        from checks import _conn
        lit1 = fresh_bytes(eng, 'x', nlit if kind < 2 else 0)
        lit2 = fresh_bytes(eng, 'y', nlit if kind < 2 else 0)
        total = len(stream_items(kind, lit1.items, lit2.items))
        cut = eng.choose('cut', total + 1)
        wit = lambda m: {'kind': kind, 'cut': cut, 'lit1': bytes(lit1.eval(m)).hex(), 'lit2': bytes(lit2.eval(m)).hex()}  # noqa: E731
        g = dict(_g)
        from pymap.imap import IMAPConnection
        from pymap.context import connection_exit
        g.update(IMAPConnection=IMAPConnection, connection_exit=connection_exit)
        err = truncated(g, _g['_sim'], _conn, kind, cut, lit1.items, lit2.items, lambda items: SymBytes(items, 'bytes'))
        return Outcome(err is None, witness=wit, info=err)
    return fn


# ---------------------------------------------------------------- the selected mailbox vanishes under the session
VANISH = ['delete', 'rename']
AFTER = ['append1', 'append2', 'append_own', 'status', 'noop', 'create', 'copy', 'store', 'expunge', 'close']


def vanished(g, sim, how, op):
    """session 0 has Other selected; session 1 deletes / renames it; then session 0 issues `op`.  A command that is
    answered NO or BAD must not have changed any mailbox; APPEND that is answered OK stored everything."""
    w = sim.World(g, 2)
    w.append(0, 'Other', flags=[g['Deleted']])
    w.append(0, 'INBOX')
    w.select(0, 'Other')
    if how == 'delete':
        w.run(1, g['DeleteCommand'](w.tag(), g['Mailbox']('Other')))
    else:
        w.run(1, g['RenameCommand'](w.tag(), g['Mailbox']('Other'), g['Mailbox']('Gone'), g['ExtensionOptions'].empty()))

    def snap():
        out = {}
        for name in sorted(w.mset._set.keys()) + ['INBOX']:
            out[name] = [(u, tuple(sorted(str(f) for f in fl))) for u, fl, _ in w.dump(name)]
        return out
    before = snap()
    if op == 'append1':
        cond, _ = w.append(0, 'INBOX', n=1)
    elif op == 'append2':
        cond, _ = w.append(0, 'INBOX', n=2)
    elif op == 'append_own':
        cond, _ = w.append(0, 'Other', n=1)
    elif op == 'status':
        cond, _ = w.run(0, g['StatusCommand'](w.tag(), g['Mailbox']('INBOX'), [g['StatusAttribute'](b'MESSAGES')]))
    elif op == 'noop':
        cond, _ = w.noop(0)
    elif op == 'create':
        cond, _ = w.run(0, g['CreateCommand'](w.tag(), g['Mailbox']('New'), g['ExtensionOptions'].empty()))
    elif op == 'copy':
        cond, _ = w.copy(0, [1], 'INBOX')
    elif op == 'store':
        cond, _ = w.store(0, [1], [g['Seen']], 'ADD')
    elif op == 'expunge':
        cond, _ = w.expunge(0)
    else:
        cond, _ = w.close(0)
    after = snap()
    if cond in ('NO', 'BAD') and after != before:
        return '%s after the selected mailbox was %sd answered %s but changed the mailboxes: %r -> %r' % (
            op, how, cond, before, after)
    if cond == 'OK' and op in ('append1', 'append2'):
        want = len(before['INBOX']) + (1 if op == 'append1' else 2)
        if len(after['INBOX']) != want:
            return '%s answered OK and INBOX holds %d messages, expected %d' % (op, len(after['INBOX']), want)
    return None


def _h_vanished():
    def fn(eng):
        from pysymex import Outcome
        how = VANISH[eng.choose('how', len(VANISH))]
        op = AFTER[eng.choose('op', len(AFTER))]
        err = vanished(_g, _g['_sim'], how, op)
        return Outcome(err is None, witness=lambda m: {'how': how, 'op': op}, info=err)
    return fn


HIER = ['a', 'a/b', 'a/c', 'x', 'x/b', 'x/c']
HIER_ENDS = ['a', 'x', 'a/b', 'x/b', 'y']
HIER_CMDS = ['rename', 'delete', 'create']


def hierarchy(g, sim, present, cmd, src, dst):
    """a hierarchy drawn from HIER (each mailbox holds one message of its own), then one RENAME / DELETE / CREATE over
    it: a NO / BAD answer leaves every name and every message where it was; an OK answer loses no message (RENAME and
    CREATE keep all of them, DELETE removes exactly the named mailbox's).  returns error|None"""
    w = sim.World(g, 1, mailboxes=())
    M, EO = g['Mailbox'], g['ExtensionOptions']
    dt, tz = g['datetime'], g['timezone'].utc
    for i, name in enumerate(HIER):
        if present[i]:
            r = w.run(0, g['CreateCommand'](w.tag(), M(name), EO.empty()))
            if r[0] != 'OK':
                return None
            w.append(0, name, when=dt(2020, 1, 1 + i, tzinfo=tz))

    def state():
        out = {}
        for name in sorted(w.mset._set.keys()):
            out[name] = sorted(m.internal_date.day for m in w.mset._set[name]._messages.values())
        return out
    before = state()
    if cmd == 'rename':
        r = w.run(0, g['RenameCommand'](w.tag(), M(src), M(dst), EO.empty()))
    elif cmd == 'delete':
        r = w.run(0, g['DeleteCommand'](w.tag(), M(src)))
    else:
        r = w.run(0, g['CreateCommand'](w.tag(), M(dst), EO.empty()))
    after = state()
    what = '%s %s%s' % (cmd.upper(), src if cmd != 'create' else dst, ' ' + dst if cmd == 'rename' else '')
    if r[0] in ('NO', 'BAD'):
        if after != before:
            return '%s answered %s but changed the mailboxes: %r -> %r' % (what, r[0], before, after)
        return None
    if r[0] != 'OK':
        return None
    days0 = sorted(d for v in before.values() for d in v)
    days1 = sorted(d for v in after.values() for d in v)
    if cmd == 'delete':
        want = sorted(d for k, v in before.items() if k != src for d in v)
        if days1 != want:
            return '%s answered OK: messages %r became %r, expected %r' % (what, days0, days1, want)
    elif days1 != days0:
        return '%s answered OK and lost or duplicated messages: %r -> %r' % (what, before, after)
    return None


def _h_hierarchy():
    def fn(eng):
        from pysymex import Outcome
        present = [bool(eng.flip('has_%d' % i)) for i in range(len(HIER))]
        cmd = HIER_CMDS[eng.choose('cmd', len(HIER_CMDS))]
        src = HIER_ENDS[eng.choose('src', len(HIER_ENDS))] if cmd != 'create' else None
        dst = HIER_ENDS[eng.choose('dst', len(HIER_ENDS))] if cmd != 'delete' else None
        wit = lambda m: {'present': present, 'cmd': cmd, 'src': src, 'dst': dst}  # noqa: E731
        err = hierarchy(_g, _g['_sim'], present, cmd, src, dst)
        return Outcome(err is None, witness=wit, info=err)
    return fn


def harnesses(tier):
    from pysymex.runner import Harness
    from checks import _conc
    q = tier == 'quick'
    extra = [Harness('interleaved_commands[tasks=%d,delays<=%d]' % (nt, nd), _conc.adders_harness(_g, nt, 'conservation', nd),
                     {'tasks': nt, 'ops': _conc.ADD_OPS, 'third_party_delays': nd}, replay='adders', task_budget=60)
             for nt, nd in ([(2, 3)] if q else [(2, 6), (3, 3)])]
    extra.append(Harness('selected_mailbox_vanishes', _h_vanished(),
                         {'how': VANISH, 'then': AFTER, 'oracle': 'NO/BAD leaves every mailbox unchanged; OK APPEND stored everything'},
                         replay='vanished', task_budget=60))
    extra.append(Harness('hierarchy_commands', _h_hierarchy(),
                         {'hierarchy': 'any subset of %r, one message each' % (HIER,), 'commands': HIER_CMDS, 'names': HIER_ENDS,
                          'oracle': 'NO/BAD leaves names and messages unchanged; OK loses no message'},
                         replay='hierarchy', task_budget=60))
    for kind in range(len(STREAMS)):
        extra.append(Harness('dropped_inside[%s]' % STREAMS[kind], _h_truncated(kind, 2),
                             {'command': STREAMS[kind], 'cut': 'every byte position', 'literal_bytes': 'symbolic'},
                             replay='truncated', task_budget=60))
    return extra + [Harness('fault_schedule[%s]' % op, _harness([op]), {'op': op, 'suspension_points': '<= 8',
                                                                 'cancellations': '<= 1'},
                    replay='schedule', task_budget=60) for op in OPS]


def replay(harness, w):
    from checks import _sim
    g = _sim.bindings()
    if harness == 'vanished':
        err = vanished(g, _sim, w['how'], w['op'])
        return {'violates': err is not None, 'detail': err, 'kind': 'vanished', 'category': 'selected mailbox vanished: ' + w['op']}
    if harness == 'hierarchy':
        err = hierarchy(g, _sim, w['present'], w['cmd'], w['src'], w['dst'])
        return {'violates': err is not None, 'detail': err, 'kind': 'hierarchy', 'category': 'hierarchy: ' + (err or '').split(' answered')[0][:40]}
    if harness == 'truncated':
        from checks import _conn
        from pymap.imap import IMAPConnection
        from pymap.context import connection_exit
        g.update(IMAPConnection=IMAPConnection, connection_exit=connection_exit)
        err = truncated(g, _sim, _conn, w['kind'], w['cut'], bytes.fromhex(w['lit1']), bytes.fromhex(w['lit2']))
        return {'violates': err is not None, 'detail': err, 'kind': 'dropped', 'category': 'dropped inside ' + STREAMS[w['kind']]}
    if harness == 'adders':
        from checks import _conc
        bad = _conc.adders_replay(g, _sim, w)
        return {'violates': bool(bad), 'detail': bad[:3], 'kind': 'interleaved', 'category': 'interleaved:' + (bad[0] if bad else '')[:50]}
    picks = list(w['picks'])

    def pick(what):
        return picks.pop(0) if picks else False
    bad = []

    def check(c, msg=''):
        if not c:
            bad.append(msg or 'obligation failed')
    err, kind = scenario(g, _sim, w['base'], w['op'], w['a'], w['b'], pick, check)
    if err:
        bad.append(err)
    return {'violates': bool(bad), 'detail': bad[:3], 'kind': kind, 'category': '%s:%s' % (w['op'], kind)}


def classify(harness, w, res):
    k = res.get('kind')
    if 'op' not in w:
        return None
    # only the recorded fault points: a cancellation while suspended on a lock
    if w['op'] in ('move', 'uidmove') and k == 'lost-cancelled':
        return 'C14-move-cancel-window'
    if w['op'] == 'append2' and k == 'partial-cancelled':
        return 'C14-multiappend-partial'
    return None

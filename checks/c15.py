"""C15 (partial) - the maildir control files survive a kill at any file-system operation.

What is encoded: pymap's own side of the maildir persistence protocol - the
real maildir MailboxData.append / copy / move / delete, MailboxSet.
set_subscribed, UidList / Subscriptions (FileWriteable.with_write, file_read,
file_write: temporary file + rename) and FileLock - on an in-memory file
system whose every mutating operation is a possible kill point.  The message
files themselves live in a stub object store standing in for the standard
library's mailbox.Maildir (add / move / remove are atomic steps and kill points
too).  A short history (1-2 operations) runs; the kill point is a solver-drawn
index into the trace of file-system operations (or none); whether the system
temporary directory is on another file system than the store is a solver
Boolean (rename across file systems fails with EXDEV, as documented for
os.rename); the next UID recorded in the uidlist is symbolic.

After the kill nothing further takes effect (clean-up code that would run
during unwinding is dead).  Then the "restart": the control files are read by
the real code and compared with what had been acknowledged:
 * every control file parses;
 * every acknowledged APPEND / COPY / MOVE has its record under the
   acknowledged UID, the record's file exists in the store and holds the
   acknowledged content; an acknowledged MOVE left nothing in the source; an
   acknowledged SUBSCRIBE is in the subscriptions file; an acknowledged delete
   removed the file;
 * no message is lost: every source message is in one of the two stores;
 * no UID is recorded for two files, and the recorded next UID is above every
   recorded UID;
 * without a kill every operation is acknowledged (in both configurations).

Outside (stated): what mailbox.Maildir does inside one add() (tmp/ -> new/),
flag changes (file renames inside Maildir), directory creation for CREATE, and
real file-system semantics beyond atomic rename / exclusive create.
"""
from __future__ import annotations

ID = 'C15'
LEVEL = 'fault_enumeration'
TIME_BUDGET = {'quick': 900, 'thorough': 3600}
EXPLANATION = (
    'Kill points as solver variables: the real maildir control-file code runs on an in-memory file system; the index of '
    'the file-system operation at which the process dies, the device layout of the temporary directory and the next '
    'UID are z3 variables; after the kill the control files are re-read by the real code and compared with the '
    'acknowledged effects.')
FUNCTIONS = [
    'pymap.backend.maildir.mailbox:MailboxData.append', 'pymap.backend.maildir.mailbox:MailboxData.copy',
    'pymap.backend.maildir.mailbox:MailboxData.move', 'pymap.backend.maildir.mailbox:MailboxData.delete',
    'pymap.backend.maildir.mailbox:MailboxSet.set_subscribed',
    'pymap.backend.maildir.io:_FileWriteWith.__aenter__', 'pymap.backend.maildir.io:_FileWriteWith.__aexit__',
    'pymap.backend.maildir.io:FileWriteable.file_write', 'pymap.backend.maildir.io:FileReadable.file_read',
    'pymap.backend.maildir.uidlist:UidList.write', 'pymap.backend.maildir.uidlist:UidList.read',
    'pymap.backend.maildir.subscriptions:Subscriptions.write', 'pymap.backend.maildir.subscriptions:Subscriptions.read',
    'pymap.concurrent:FileLock.write_lock', 'pymap.concurrent:FileLock.read_lock',
]
ASSUMPTIONS = ['histories of 1 (quick) / 2 (thorough) operations; one kill at most',
               'rename and exclusive create are atomic; a file opened for writing exists (empty) at once and receives what '
               'was written when it is closed, wherever a rename has moved it meanwhile (the write buffer dies with the process)',
               'the message files are an object store: add / move / remove are single atomic steps']
STUBS = ['in-memory file system with kill points and two devices', 'stub Maildir object store', 'clock = 0, sleep suspends']
OUTSIDE = ['the inside of mailbox.Maildir.add and of flag renames', 'CREATE / RENAME of folders (directories)',
           'more than one kill, torn writes inside one file', 'lock files left behind by a kill (expire after 600 s)']

_g: dict = {}
OPS = ['append', 'copy', 'move', 'delete', 'subscribe']


def setup() -> None:
    from checks import c04_maildir
    _g.update(c04_maildir.bindings())
    from pymap.backend.maildir.subscriptions import Subscriptions
    from pymap.backend.maildir.mailbox import MailboxSet as MaildirMailboxSet
    _g.update(Subscriptions=Subscriptions, MaildirMailboxSet=MaildirMailboxSet)


class Kill(BaseException):
    pass


def make_fs(crash_at, tmp_other_device):
    import errno
    from checks.c04_maildir import MemFS, _Reader, _Writer

    class KWriter(_Writer):
        def __exit__(self, *a):
            self.fs.tick('close ' + self.name)
            return super().__exit__(*a)

    class CrashFS(MemFS):
        def __init__(self):
            super().__init__(lambda: 0)
            self.nops = 0
            self.dead = False

        def tick(self, what):
            if self.dead:
                raise Kill()
            self.nops += 1
            self.trace.append(('op', self.nops, what))
            if crash_at is not None and self.nops == crash_at:
                self.dead = True
                raise Kill()

        @staticmethod
        def dev(p):
            return 'tmp' if p.startswith('/tmp/') else 'store'

        def unlink(self, p):
            if p not in self.files:
                raise FileNotFoundError(p)
            self.tick('unlink ' + p)
            del self.files[p]
        remove = unlink

        def rename(self, a, b):
            if a not in self.files:
                raise FileNotFoundError(a)
            if tmp_other_device and self.dev(a) != self.dev(b):
                raise OSError(errno.EXDEV, 'Invalid cross-device link', a)
            self.tick('rename ' + b)
            self.files[b] = self.files.pop(a)

        def named_temp(self, mode='w', delete=True, dir=None, **k):
            self.ntemp += 1
            self.tick('create temporary file')
            return KWriter(self, (dir or '/tmp') + '/t%d' % self.ntemp)

        def open(self, p, mode='r', *a, **k):
            if 'x' in mode:
                if p in self.files:
                    raise FileExistsError(p)
                self.tick('create ' + p)
                self.files[p] = []
                self.mtime[p] = 0
                return _Reader([])
            return super().open(p, mode, *a, **k)
    return CrashFS()


def make_store(fs, name):
    from checks.c04_maildir import StubMaildir

    class KStore(StubMaildir):
        def add(self, msg):
            fs.tick('maildir add')
            return super().add(msg)

        def move_message(self, key, dest, dest_subdir):
            if key not in self.msgs:
                raise KeyError(key)
            fs.tick('maildir move')
            return super().move_message(key, dest, dest_subdir)

        def remove(self, key):
            if key not in self.msgs:
                raise KeyError(key)
            fs.tick('maildir remove')
            del self.msgs[key]
            self.payload.pop(key, None)
    return KStore(name)


class _Layout:
    path = '/m'


def scenario(g, install, ops, crash_at, tmp_other_device, nxt0, check):
    """returns error|None"""
    from checks.c04_maildir import _Sleep
    from mailbox import MaildirMessage
    UidList, Record, MailboxData, ObjectId = g['UidList'], g['Record'], g['MaildirMailboxData'], g['ObjectId']
    Subscriptions, AM = g['Subscriptions'], g['AppendMessage']
    setup_fs = make_fs(None, False)
    install(setup_fs, lambda: 0, lambda d: _Sleep(d))
    try:
        SP, DP, BASE = '/m/S', '/m/D', '/m'
        smd, dmd = make_store(setup_fs, 's'), make_store(setup_fs, 'd')
        # initial state, written by the real code: S holds one message (UID 1), D one (UID nxt0 - 1)
        for path, store, uid, nxt, date in ((SP, smd, 1, 2, 1000), (DP, dmd, nxt0 - 1, nxt0, 999)):
            ul = UidList(path, 7, nxt, b'0' * 32)
            m = MaildirMessage()
            m.set_subdir('cur')
            m.set_date(date)
            m.set_payload('content %d\r\n' % date)
            key = store.add(m)
            ul._records[uid] = Record(uid, {}, key + ':2,')
            ul.file_write()
        src_key, old_key, old_uid = 's1', 'd1', nxt0 - 1
        files0 = dict(setup_fs.files)
    finally:
        install(None, None, None)
    # the run that may be killed
    fs = make_fs(crash_at, tmp_other_device)
    fs.files = {k: list(v) for k, v in files0.items()}
    for store in (smd, dmd):
        store.__class__ = make_store(fs, store.name).__class__
    install(fs, lambda: 0, lambda d: _Sleep(d))
    acked = []
    killed = False
    failed = None
    try:
        S = MailboxData(ObjectId(b'S'), smd, SP)
        D = MailboxData(ObjectId(b'D'), dmd, DP)
        mset = g['MaildirMailboxSet'](smd, _Layout())
        dt = g['datetime']

        async def do(op, i):
            if op == 'append':
                msg = await D.append(AM(b'Subject: x\r\n\r\nnew%d' % i, dt.fromtimestamp(2000 + i), frozenset()))
                return msg.uid
            if op == 'copy':
                return await S.copy(1, D)
            if op == 'move':
                return await S.move(1, D)
            if op == 'delete':
                return await D.delete([old_uid])
            return await mset.set_subscribed('X%d' % i, True)

        def drive(co):
            for _ in range(80):
                try:
                    y = co.send(None)
                except StopIteration as e:
                    return e.value
                if not (isinstance(y, tuple) and y and y[0] == 'sleep'):
                    raise RuntimeError('unexpected suspension %r' % (y,))
            raise RuntimeError('operation did not finish')
        for i, op in enumerate(ops):
            try:
                res = drive(do(op, i))
            except Kill:
                killed = True
                break
            except Exception as exc:     # noqa: BLE001 - an operation that fails is not acknowledged
                failed = '%s failed with %s: %s' % (op, type(exc).__name__, str(exc)[:80])
                break
            acked.append((op, i, res))
    except Kill:
        killed = True
    finally:
        install(None, None, None)
    if not killed and failed is not None:
        return 'no kill, tmp on %s device: %s' % ('another' if tmp_other_device else 'the same', failed)
    # ---- restart: read everything back with the real code on the surviving state
    after = make_fs(None, False)
    after.files = {k: list(v) for k, v in fs.files.items() if not k.startswith('/tmp/')}
    install(after, lambda: 0, lambda d: _Sleep(d))
    try:
        try:
            dl = UidList.file_read(DP)
            sl = UidList.file_read(SP)
            subs = Subscriptions.file_read(BASE)
        except Exception as exc:         # noqa: BLE001
            return 'a control file is unreadable after the kill: %s %s' % (type(exc).__name__, str(exc)[:60])
        drecs = list(dl.records)
        for x, r1 in enumerate(drecs):
            check(dl.next_uid > r1.uid, 'the recorded next UID is not above a recorded UID')
            for r2 in drecs[x + 1:]:
                check(r1.uid != r2.uid, 'one UID recorded twice')
        old = [r for r in drecs if bool(r.key == old_key)]
        if len(old) != 1:
            return 'the record of an earlier message is gone after the kill'
        check(old[0].uid == old_uid, 'an earlier message changed its UID')
        want_payload = {'copy': 'content 1000\r\n', 'move': 'content 1000\r\n'}
        for op, i, res in acked:
            if op in ('append', 'copy', 'move'):
                if res is None:
                    continue
                mine = [r for r in drecs if bool(r.uid == res)]
                if len(mine) != 1:
                    return 'acknowledged %s: no record under the acknowledged UID after restart' % op
                k = [k for k in dmd.msgs if bool(mine[0].key == k)]
                if not k:
                    return 'acknowledged %s: the recorded file does not exist' % op
                if op != 'append' and dmd.payload.get(k[0]) != want_payload[op]:
                    return 'acknowledged %s: the file holds other content' % op
                if op == 'move' and src_key in smd.msgs:
                    return 'acknowledged MOVE left the message in the source'
            elif op == 'subscribe':
                if ('X%d' % i) not in subs.subscribed:
                    return 'acknowledged SUBSCRIBE is not in the subscriptions file after restart'
            elif op == 'delete':
                if old_key in dmd.msgs:
                    return 'acknowledged delete left the message file'
        if src_key not in smd.msgs and src_key not in dmd.msgs:
            return 'the source message is in neither store after the kill'
        if src_key in smd.msgs:
            # still in the source folder (the operation on it was not completed): it keeps the UID it was
            # acknowledged with - without its record the restarted server would hand it a new one
            mine = [r for r in sl.records if bool(r.key == src_key)]
            if len(mine) != 1:
                return 'the source message is still in its folder but its UID record is gone after the kill'
            check(mine[0].uid == 1, 'the source message changed its UID')
        return None
    finally:
        install(None, None, None)


def _harness(nops):
    def fn(eng):
        from pysymex import loader, B, AND, Outcome
        from pysymex.core import SymInt
        SymInt.HASH_OK = True
        ops = [OPS[eng.choose('op%d' % i, len(OPS))] for i in range(nops)]
        other = bool(eng.flip('tmp_on_another_device'))
        crash_at = eng.choose('kill_at', 14 * nops + 1)      # 0 = no kill
        nxt0 = eng.fresh_int('next_uid', 2, 120)
        obligations = []

        def install(fs, clock, sleep):
            loader.FS_HOOK[0] = fs
            loader.ENV_HOOK['clock'] = clock
            loader.ENV_HOOK['sleep'] = sleep
        wit = lambda m: {'ops': ops, 'tmp_other_device': other, 'kill_at': crash_at, 'next_uid': nxt0.eval(m)}  # noqa: E731
        err = scenario(_g, install, ops, crash_at or None, other, nxt0, lambda c, msg='': obligations.append(B(c)))
        if err is not None:
            return Outcome(False, witness=wit, info=err)
        return Outcome(AND(*obligations), witness=wit)
    return fn


class _TextOut:
    """what a text-mode file opened for writing collects"""

    def __init__(self):
        self.parts = []

    def write(self, s):
        self.parts.append(s)


def _text_lines(content):
    """iterate like a text-mode file opened for reading does (universal newlines: CRLF, CR and LF all end a line and
    are handed over as LF); content is a str or a SymStr"""
    out, cur, i, n = [], [], 0, len(content)
    while i < n:
        c = content[i]
        if bool(c == '\r'):
            if i + 1 < n and bool(content[i + 1] == '\n'):
                i += 1
            cur.append('\n')
            out.append(cur)
            cur = []
        elif bool(c == '\n'):
            cur.append('\n')
            out.append(cur)
            cur = []
        else:
            cur.append(c)
        i += 1
    if cur:
        out.append(cur)
    lines = []
    for chars in out:
        line = ''
        for c in chars:
            line = line + c
        lines.append(line)
    return lines


def subs_roundtrip(g, names):
    """the real Subscriptions.write followed by the real Subscriptions.read; returns (names read back, error|None)"""
    Subscriptions = g['Subscriptions']
    subs = Subscriptions('/m')
    for nm in names:
        subs.add(nm)
    fp = _TextOut()
    subs.write(fp)
    content = ''
    for part in fp.parts:
        content = content + part
    back = Subscriptions('/m')
    back.read(iter(_text_lines(content)))
    return list(back.subscribed)


def _h_subs(n, second):
    """an acknowledged SUBSCRIBE persists: whatever names are written to the subscriptions file are the names read
    from it (by LSUB in the same session as well as after a restart)"""
    def fn(eng):
        from pysymex import fresh_str, B, AND, Outcome
        from pysymex import symbytes
        symbytes.SymStr.HASH_OK = True
        name = fresh_str(eng, 'n', n, hi=0x7f)
        names = [name] + (['x'] if second else [])
        wit = lambda m: {'names': [name.concrete(m)] + ([[120]] if second else [])}  # noqa: E731
        if second and n == 1 and bool(name == 'x'):
            return Outcome(True, witness=wit, site='same name')
        got = subs_roundtrip(_g, names)
        if len(got) != len(names):
            return Outcome(False, witness=wit, info='%d names written, %d read back' % (len(names), len(got)))
        conds = []
        for a, b in zip(got, names):
            if len(a) != len(b):
                return Outcome(False, witness=wit, info='a name of %d characters comes back with %d' % (len(b), len(a)))
            conds.append(B(a == b))
        return Outcome(AND(*conds), witness=wit, info='a subscribed name comes back changed')
    return fn


def harnesses(tier):
    from pysymex.runner import Harness
    subs = [Harness('subscriptions_roundtrip[len=%d%s]' % (n, ',+x' if second else ''), _h_subs(n, second),
                    {'name_len': n, 'characters': 'ASCII, symbolic', 'second_name': second}, replay='subs', task_budget=60)
            for n in range(1, (3 if tier == 'quick' else 5) + 1) for second in (False, True)]
    return subs + [Harness('kill_points[ops=%d]' % n, _harness(n),
                    {'operations': n, 'ops': OPS, 'kill_point': 'every file-system operation of the trace, or none',
                     'tmp_device': 'same / other (symbolic)', 'next_uid': 'symbolic'}, replay='kill', task_budget=60)
            for n in ([1] if tier == 'quick' else [1, 2])]


def replay(harness, w):
    if harness == 'subs':
        from pymap.backend.maildir.subscriptions import Subscriptions
        names = [''.join(chr(c) for c in nm) for nm in w['names']]
        if len(set(names)) != len(names):
            return {'violates': False}
        # through a real text-mode file
        import tempfile
        import os
        subs = Subscriptions('/m')
        for nm in names:
            subs.add(nm)
        with tempfile.TemporaryDirectory() as d:
            with open(os.path.join(d, 'subscriptions'), 'w') as fp:
                subs.write(fp)
            back = Subscriptions('/m')
            with open(os.path.join(d, 'subscriptions'), 'r') as fp:
                back.read(fp)
        got = list(back.subscribed)
        bad = [] if got == names else ['subscribed %r, the file gives back %r' % (names, got)]
        return {'violates': bool(bad), 'detail': bad, 'names': names,
                'category': 'subscriptions file: ' + ('name with CR/LF' if any(c in nm for nm in names for c in '\r\n')
                                                      else 'name changed')}
    import types
    import pymap.concurrent as C
    import pymap.backend.maildir.io as IO
    from checks import c04_maildir
    g = c04_maildir.bindings()
    from pymap.backend.maildir.subscriptions import Subscriptions
    from pymap.backend.maildir.mailbox import MailboxSet as MaildirMailboxSet
    g.update(Subscriptions=Subscriptions, MaildirMailboxSet=MaildirMailboxSet)
    saved = (C.os, C.time, C.asyncio, IO.os, IO.NamedTemporaryFile)
    bad = []

    def install(fs, clock, sleep):
        if fs is None:
            C.os, C.time, C.asyncio, IO.os, IO.NamedTemporaryFile = saved
            C.__dict__.pop('open', None)
            IO.__dict__.pop('open', None)
            return
        import os as _os
        pathns = types.SimpleNamespace(**{k: getattr(_os.path, k) for k in ('join', 'split', 'basename', 'dirname')})
        pathns.exists = fs.path_exists
        o = types.SimpleNamespace(stat=fs.stat, unlink=fs.unlink, remove=fs.remove, rename=fs.rename, path=pathns)
        C.os = o
        IO.os = o
        C.time = types.SimpleNamespace(time=clock)
        a = types.SimpleNamespace(**{k: v for k, v in vars(saved[2]).items() if not k.startswith('__')})
        a.sleep = sleep
        C.asyncio = a
        C.open = fs.open
        IO.open = fs.open
        IO.NamedTemporaryFile = fs.named_temp

    def check(c, msg=''):
        if not c:
            bad.append(msg or 'obligation failed')
    err = scenario(g, install, w['ops'], w['kill_at'] or None, w['tmp_other_device'], w['next_uid'], check)
    if err:
        bad.append(err)
    return {'violates': bool(bad), 'detail': bad[:3], 'category': (bad[0] if bad else '')[:70]}


def classify(harness, w, res):
    if harness == 'subs' and any(c in (10, 13) for nm in w['names'] for c in nm):
        return 'C15-subscriptions-crlf-name'
    return None

"""C16 - IDLE delivers every change without further stimulus.

Assume/guarantee decomposition, each part a check of the real code:

1. never parks while behind: the real dict MailboxData.update_selected(
   selected, wait_on=done) is started on a real event loop from a pre-state in
   which the session has consumed the change log up to a *symbolic* position
   p <= highest; obligation: p < highest  =>  the call completes without any
   further set() (it must not wait for the *next* change to report this one).
1b. a change that lands while the idler is not parked is not lost: the idler
   consumes the log at an arbitrary point of a history of mutators (as the
   return of its previous wait does), the rest of the history lands, then it
   re-arms update_selected(wait_on=done): if its view (uid -> flags) differs
   from the mailbox it must complete without any further set(), and the view
   must then equal the mailbox.  (Obligation 1 alone assumes that every
   change advances the log position; this one does not.)
2. every mutator signals: append / copy / move / update / delete /
   claim_recent each set a listener registered with or_event beforehand.
3. the diff after wake-up is right: C01 / C02.
3b. end to end on the real connection loop (checks/_idle.py): session A idles
   on a scripted transport, session B changes the mailbox in bursts with the
   transport yielding to the loop in between; everything B did has reached the
   client, as bytes, before DONE is sent.
4. DONE ends IDLE with the tagged OK and anything else with BAD: the real
   IMAPConnection.idle on a scripted transport with a symbolic line.
"""
from __future__ import annotations

ID = 'C16'
LEVEL = 'model_checking'
TIME_BUDGET = {'quick': 600, 'thorough': 3600}
EXPLANATION = (
    'Bounded symbolic execution on a real asyncio loop: the change-log position '
    'the idler has consumed is a z3 integer, the history that produced the log '
    'is a fork over mutators; the obligation "behind => not parked" is one proof '
    'query per path; the DONE line is symbolic bytes through the real connection '
    'loop.  The asyncio scheduler itself (ready queue fairness, wait_for, '
    'shield) is trusted.')
FUNCTIONS = [
    'pymap.backend.dict.mailbox:MailboxData.update_selected', 'pymap.backend.dict.mailbox:MailboxData.append',
    'pymap.backend.dict.mailbox:MailboxData.copy', 'pymap.backend.dict.mailbox:MailboxData.move',
    'pymap.backend.dict.mailbox:MailboxData.update', 'pymap.backend.dict.mailbox:MailboxData.delete',
    'pymap.backend.dict.mailbox:MailboxData.claim_recent', 'pymap.backend.dict.mailbox:_ModSequenceMapping.find_updated',
    'pymap.concurrent:_AsyncioEvent.or_event', 'pymap.concurrent:_AsyncioEvent.set', 'pymap.concurrent:_AsyncioEvent.wait',
    'pymap.imap:IMAPConnection.idle', 'pymap.imap:IMAPConnection.handle_updates', 'pymap.imap:IMAPConnection.read_idle_done',
    'pymap.imap.state:ConnectionState.receive_updates', 'pymap.backend.session:BaseSession.check_mailbox',
    'pymap.parsing.command.select:IdleCommand.parse_done',
]
ASSUMPTIONS = ['change logs produced by <= 3 (quick) / 4 (thorough) mutations, the idler consuming the log at any point before the last one; the idler position p is any integer 0..highest (or None: never synced)',
               'asyncio scheduler fairness, wait_for and shield are trusted',
               'DONE line of <= 6 symbolic bytes (no LF inside, not ending in a literal announcement "+}")']
STUBS = ['scripted transport for part 4']
OUTSIDE = ['maildir (1 s poll timer)', 'the scheduler itself', 'TCP back-pressure while writing notifications']

_g: dict = {}
MUTATORS = ['append', 'update', 'delete', 'copy_in', 'move_out', 'claim_recent', 'append_recent', 'copy_in_recent', 'move_in',
            'move_in_recent']


def setup() -> None:
    from checks import _sim
    _g.update(_sim.bindings())
    _g['_sim'] = _sim
    from pymap.context import subsystem, connection_exit
    from pymap.selected import SelectedMailbox
    from pymap.flags import PermanentFlags, SessionFlags
    from pymap.imap import IMAPConnection
    from pymap.backend.dict import Login
    from pymap.user import UserMetadata
    _g.update(locals())


def _mutate(g, sim, ms, mbx, other, op, sel_other):
    AM = g['AppendMessage']
    if op == 'append':
        sim.run_coro(mbx.append(AM(b'x', None, frozenset())))
    elif op == 'update':
        if mbx._messages:
            uid = next(iter(mbx._messages))
            sim.run_coro(mbx.update(uid, mbx._messages[uid], frozenset({g['Seen']}), g['FlagOp'].ADD))
        else:
            sim.run_coro(mbx.append(AM(b'x', None, frozenset())))
    elif op == 'delete':
        if mbx._messages:
            sim.run_coro(mbx.delete([next(iter(mbx._messages))]))
        else:
            sim.run_coro(mbx.append(AM(b'x', None, frozenset())))
    elif op == 'copy_in':
        if not other._messages:
            sim.run_coro(other.append(AM(b'y', None, frozenset())))
        sim.run_coro(other.copy(next(iter(other._messages)), mbx))
    elif op == 'move_out':
        if mbx._messages:
            sim.run_coro(mbx.move(next(iter(mbx._messages)), other))
        else:
            sim.run_coro(mbx.append(AM(b'x', None, frozenset())))
    elif op == 'append_recent':
        # delivered while no read-write session has the mailbox selected (an EXAMINE idler still has to hear of it)
        sim.run_coro(mbx.append(AM(b'x', None, frozenset()), recent=True))
    elif op in ('copy_in_recent', 'move_in', 'move_in_recent'):
        if not other._messages:
            sim.run_coro(other.append(AM(b'y', None, frozenset())))
        src = next(iter(other._messages))
        if op == 'copy_in_recent':
            sim.run_coro(other.copy(src, mbx, recent=True))
        else:
            sim.run_coro(other.move(src, mbx, recent=(op == 'move_in_recent')))
    elif op == 'claim_recent':
        sim.run_coro(mbx.append(AM(b'x', None, frozenset()), recent=True))
        sim.run_coro(mbx.claim_recent(sel_other))


def parked_scenario(g, sim, history, p, check):
    """returns error|None; p: consumed position (int|SymInt) or None"""
    import asyncio
    ms = g['MailboxSet']()
    mbx = ms._inbox
    sim.run_coro(ms.add_mailbox('O'))
    other = sim.run_coro(ms.get_mailbox('O'))

    def mk():
        return g['SelectedMailbox'](mbx.mailbox_id, False, g['PermanentFlags'](mbx.permanent_flags),
                                    g['SessionFlags'](mbx.session_flags), selected_set=mbx.selected_set, lookup='INBOX')
    sel_other = mk()
    sel = mk()
    sim.run_coro(mbx.update_selected(sel))         # first sync: consumed everything so far
    for op in history:
        _mutate(g, sim, ms, mbx, other, op, sel_other)
    highest = mbx._mod_sequences.highest
    sel.mod_sequence = p       # None: a selection that has never been synchronised
    res = {}

    async def main():
        done = g['subsystem'].get().new_event()
        task = asyncio.ensure_future(mbx.update_selected(sel, wait_on=done))
        for _ in range(6):
            await asyncio.sleep(0)
        res['parked'] = not task.done()
        done.set()
        await task
    asyncio.run(main())
    behind = (p < highest) if p is not None else True
    # behind => not parked
    notparked = not res['parked']
    cond = (not behind) | notparked if isinstance(behind, bool) else ((~behind) | notparked)
    check(cond, 'the idler parked although it is behind (p=%s, highest=%s)' % (p, highest))
    return None


PUSH_OPS = ['append', 'flag_add', 'flag_del', 'flag_add_last', 'flag_del_last', 'delete', 'copy_in', 'move_out',
            'claim_recent', 'append_recent', 'move_in_recent']


def _mutate_push(g, sim, ms, mbx, other, op, sel_other):
    if op.startswith('flag_'):
        if not mbx._messages:
            return _mutate(g, sim, ms, mbx, other, 'append', sel_other)
        uids = sorted(mbx._messages)
        uid = uids[-1] if op.endswith('_last') else uids[0]
        mode = g['FlagOp'].ADD if '_add' in op else g['FlagOp'].DELETE
        sim.run_coro(mbx.update(uid, mbx._messages[uid], frozenset({g['Seen']}), mode))
    else:
        _mutate(g, sim, ms, mbx, other, op, sel_other)


def push_scenario(g, sim, history, k, base=None, h0=None):
    """the idler consumes the log after the first k mutations (as the return of its previous wait does), the
    rest of the history lands while it is not parked (writing that notification), then it re-arms its wait:
    whatever its view is missing must be reported without any further set().  returns error|None"""
    import asyncio
    ms = g['MailboxSet']()
    mbx = ms._inbox
    sim.run_coro(ms.add_mailbox('O'))
    other = sim.run_coro(ms.get_mailbox('O'))

    def mk():
        return g['SelectedMailbox'](mbx.mailbox_id, False, g['PermanentFlags'](mbx.permanent_flags),
                                    g['SessionFlags'](mbx.session_flags), selected_set=mbx.selected_set, lookup='INBOX')
    if base is not None:
        # arbitrary starting points of the UID counter and of the change log
        mbx._max_uid = base
        mbx._mod_sequences._highest = h0
    sel_other = mk()
    sel = mk()
    sim.run_coro(mbx.update_selected(sel))

    def view():
        m = sel.messages
        return {u: frozenset(m._flags_key_map[u][1]) for u in m._uids}

    def state():
        return {u: frozenset(msg.permanent_flags) for u, msg in mbx._messages.items()}
    for i, op in enumerate(history):
        if i == k:
            sim.run_coro(mbx.update_selected(sel))
            if view() != state():
                return 'a plain synchronisation left the view stale after %s' % (history[:k],)
        _mutate_push(g, sim, ms, mbx, other, op, sel_other)
    stale = view() != state()
    res = {}

    async def main():
        done = g['subsystem'].get().new_event()
        task = asyncio.ensure_future(mbx.update_selected(sel, wait_on=done))
        for _ in range(6):
            await asyncio.sleep(0)
        res['parked'] = not task.done()
        if not res['parked']:
            res['view'] = view()
        done.set()
        await task
    asyncio.run(main())
    if stale and res['parked']:
        return 'the idler parked although its view misses a change (would wait for the next one)'
    if not res['parked'] and res['view'] != state():
        return 'the idler woke up but its view still misses a change'
    return None


def signal_scenario(g, sim, op):
    ms = g['MailboxSet']()
    mbx = ms._inbox
    sim.run_coro(ms.add_mailbox('O'))
    other = sim.run_coro(ms.get_mailbox('O'))
    sim.run_coro(mbx.append(g['AppendMessage'](b'x', None, frozenset())))
    sel_other = g['SelectedMailbox'](mbx.mailbox_id, False, g['PermanentFlags'](mbx.permanent_flags),
                                     g['SessionFlags'](mbx.session_flags), selected_set=mbx.selected_set, lookup='INBOX')
    done = g['subsystem'].get().new_event()
    either = done.or_event(mbx._updated)
    before = dict((u, m.permanent_flags) for u, m in mbx._messages.items())
    _mutate(g, sim, ms, mbx, other, op, sel_other)
    if not either.is_set():
        return 'mutator %s changed the mailbox without signalling idlers' % op
    return None


def _h_parked(depth):
    def fn(eng):
        from pysymex import B, AND, Outcome
        history = [MUTATORS[eng.choose('m%d' % t, len(MUTATORS))] for t in range(depth)]
        never = eng.flip('never_synced')
        p = None if never else eng.fresh_int('p', 0, depth * 3 + 3)
        obligations = []
        wit = lambda m: {'history': history, 'p': None if p is None else p.eval(m)}  # noqa: E731
        # p must be a position the log can have: <= highest (added inside via assumption)
        err = None

        def check(c, msg=''):
            obligations.append(B(c))
        # constrain p <= highest after the history is known: run once to learn highest
        err = parked_scenario_bounded(_g, _g['_sim'], history, p, check, eng)
        if err is not None:
            return Outcome(False, witness=wit, info=err)
        return Outcome(AND(*obligations), witness=wit)
    return fn


def parked_scenario_bounded(g, sim, history, p, check, eng):
    # learn `highest` for this history concretely, then constrain p <= highest
    ms = g['MailboxSet']()
    mbx = ms._inbox
    sim.run_coro(ms.add_mailbox('O'))
    other = sim.run_coro(ms.get_mailbox('O'))
    sel_other = g['SelectedMailbox'](mbx.mailbox_id, False, g['PermanentFlags'](mbx.permanent_flags),
                                     g['SessionFlags'](mbx.session_flags), selected_set=mbx.selected_set, lookup='INBOX')
    for op in history:
        _mutate(g, sim, ms, mbx, other, op, sel_other)
    if p is not None:
        eng.add(p.t <= mbx._mod_sequences.highest)
    return parked_scenario(g, sim, history, p, check)


def _h_push(depth):
    def fn(eng):
        from pysymex import Outcome, SymUid
        history = [PUSH_OPS[eng.choose('m%d' % t, len(PUSH_OPS))] for t in range(depth)]
        k = eng.choose('sync_at', depth)
        base = eng.fresh_int('base', 0, 2 ** 32 - 10, cls=SymUid)
        h0 = eng.fresh_int('h0', 0, cls=SymUid)
        err = push_scenario(_g, _g['_sim'], history, k, base, h0)
        return Outcome(err is None, witness=lambda m: {'history': history, 'k': k, 'base': base.eval(m), 'h0': h0.eval(m)},
                       info=err)
    return fn


def _h_signal():
    def fn(eng):
        from pysymex import Outcome
        op = MUTATORS[eng.choose('op', len(MUTATORS))]
        err = signal_scenario(_g, _g['_sim'], op)
        return Outcome(err is None, witness=lambda m: {'op': op}, info=err)
    return fn


def idle_done(g, sim, conn_mod, line_items, mk):
    cfg = sim.make_config(g)
    login = g['Login'](cfg)
    login.users_dict['testuser'] = g['UserMetadata'](cfg, 'testuser', password=cfg.hash_context.hash('testpass'))
    feed = [b'l LOGIN testuser testpass\r\n', b's SELECT INBOX\r\n', b'i IDLE\r\n', mk(list(line_items) + [10]),
            b'n NOOP\r\n']
    tr, state, exc = conn_mod.run_imap(g, login, cfg, feed, local=True)
    if exc is not None:
        return 'connection raised %r' % (exc,)
    out = bytes(x if isinstance(x, int) else 63 for x in tr.output())
    lines, conds = conn_mod.tagged(list(out))
    if b'+ Idling' not in out:
        return 'IDLE did not answer with a continuation'
    return conds.get(b'i'), conds.get(b'n')


def _h_idle_done(n):
    def fn(eng):
        from pysymex import fresh_bytes, SymBytes, Outcome, B
        from checks import _conn
        body = fresh_bytes(eng, 'b', n)
        for c in body.items:
            eng.add(c.t != 10)
        # a line that itself announces a non-synchronizing literal ("...{n+}") makes the reader take the
        # following bytes as that literal: outside this obligation
        for k in (1, 2):
            if n >= k + 1:
                eng.add((body.items[n - k].t != 0x7d) | (body.items[n - k - 1].t != 0x2b))
        wit = lambda m: {'line': bytes(body.eval(m)).hex()}  # noqa: E731
        r = idle_done(_g, _g['_sim'], _conn, body.items, lambda items: SymBytes(items, 'bytes'))
        if isinstance(r, str):
            return Outcome(False, witness=wit, info=r)
        cond, after = r
        k = len(body)
        core = body[:k - 1] if (k >= 1 and bool(body[k - 1] == 13)) else body
        is_done = len(core) == 4 and bool(core.upper() == b'DONE')
        ok = (cond == ('OK' if is_done else 'BAD')) and after == 'OK'
        return Outcome(ok, witness=wit, info='IDLE ended with %s, next command %s' % (cond, after))
    return fn


def harnesses(tier):
    from pysymex.runner import Harness
    q = tier == 'quick'
    hs = []
    for d in ([0, 1, 2] if q else [0, 1, 2, 3]):
        hs.append(Harness('never_parks_behind[history=%d]' % d, _h_parked(d), {'history': d, 'p': 'symbolic 0..highest'},
                          replay='parked', task_budget=30))
    for d in ([1, 2, 3] if q else [1, 2, 3, 4]):
        hs.append(Harness('change_while_not_parked[history=%d]' % d, _h_push(d),
                          {'history': d, 'sync_point': 'any position before the last mutation'}, replay='push',
                          task_budget=60))
    from checks import _idle
    for mm, npre, bursts in ([(2, 0, (1, 1)), (2, 1, (1,))] if q else [(2, 0, (1, 1)), (2, 1, (1, 1)), (3, 0, (2, 1))]):
        hs.append(Harness('idle_end_to_end[m=%d,pending=%d,bursts=%s]' % (mm, npre, '+'.join(map(str, bursts))),
                          _idle.harness(_g, mm, npre, bursts, want_delivery=True),
                          {'initial_messages': mm, 'pending_at_idle_start': npre, 'bursts_while_idling': list(bursts),
                           'oracle': 'everything done while idling has reached the client before DONE is sent'},
                          replay='idle_e2e', task_budget=40))
    hs.append(Harness('mutators_signal', _h_signal(), {'mutators': MUTATORS}, replay='signal'))
    for n in ([0, 4, 5] if q else [0, 1, 2, 3, 4, 5, 6]):
        hs.append(Harness('idle_done_line[len=%d]' % n, _h_idle_done(n), {'line_len': n}, replay='idledone', task_budget=20))
    return hs


def replay(harness, w):
    from checks import _sim, _conn
    g = _sim.bindings()
    from pymap.context import subsystem, connection_exit
    from pymap.selected import SelectedMailbox
    from pymap.flags import PermanentFlags, SessionFlags
    from pymap.imap import IMAPConnection
    from pymap.backend.dict import Login
    from pymap.user import UserMetadata
    g.update(locals())
    bad = []

    def check(c, msg=''):
        if not c:
            bad.append(msg or 'obligation failed')
    if harness == 'idle_e2e':
        from checks import _idle
        b = _idle.replay(w)
        return {'violates': bool(b), 'detail': b[:3], 'category': 'idle e2e: ' + (b[0] if b else '')[:50]}
    if harness == 'parked':
        err = parked_scenario(g, _sim, w['history'], w['p'], check)
    elif harness == 'push':
        err = push_scenario(g, _sim, w['history'], w['k'], w.get('base'), w.get('h0'))
    elif harness == 'signal':
        err = signal_scenario(g, _sim, w['op'])
    else:
        line = bytes.fromhex(w['line'])
        r = idle_done(g, _sim, _conn, list(line), lambda items: bytes(items))
        if isinstance(r, str):
            err = r
        else:
            core = line[:-1] if line.endswith(b'\r') else line
            want = 'OK' if core.upper() == b'DONE' else 'BAD'
            err = None if (r[0] == want and r[1] == 'OK') else 'IDLE line %r ended with %s, next %s' % (line, r[0], r[1])
    if err:
        bad.append(err)
    return {'violates': bool(bad), 'detail': bad[:3], 'category': (bad[0] if bad else '')[:60]}


def classify(harness, w, res):
    return None

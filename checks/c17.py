"""C17 - \\Recent is announced to exactly one session and never stored.

Histories of SELECT / EXAMINE / CLOSE / APPEND / COPY / STORE(+-\\Recent) / NOOP
by up to three sessions on one mailbox of the real dict backend.  After every
command the harness reads, for every live selection, which UIDs it reports as
\\Recent, and checks: each UID is \\Recent in at most one read-write selection
over its whole lifetime, never in a read-only one, never both claimed and
still stored as unclaimed; a message that arrived unclaimed goes to the first
read-write selector; RECENT numbers equal the number of \\Recent messages in
the view; STORE cannot add or remove it; COPY does not carry it over.
"""
from __future__ import annotations

ID = 'C17'
LEVEL = 'model_checking'
TIME_BUDGET = {'quick': 900, 'thorough': 5400}
EXPLANATION = (
    'Bounded model checking of session histories on the real session layer and '
    'dict backend: the operation and the session at each step are forks, the '
    'UID base and STORE/COPY sequence numbers are z3 integers; a ghost map '
    'uid -> set of selections that ever reported it \\Recent is maintained by '
    'the harness; UID identities are compared symbolically and discharged in '
    'one proof query per path.')
FUNCTIONS = [
    'pymap.backend.session:BaseSession.select_mailbox', 'pymap.backend.session:BaseSession.append_messages',
    'pymap.backend.session:BaseSession.copy_messages', 'pymap.backend.session:BaseSession._pick_selected',
    'pymap.selected:SelectedSet.add', 'pymap.selected:SelectedSet.any_selected',
    'pymap.flags:SessionFlags.add_recent', 'pymap.flags:SessionFlags.remove', 'pymap.flags:SessionFlags.get',
    'pymap.backend.dict.mailbox:MailboxData.claim_recent', 'pymap.backend.dict.mailbox:MailboxData.append',
    'pymap.backend.dict.mailbox:MailboxData.copy', 'pymap.backend.dict.mailbox:MailboxData.snapshot',
    'pymap.imap.state:ConnectionState.do_select', 'pymap.selected:SelectedMailbox._compare',
]
ASSUMPTIONS = ['<= 3 sessions, histories of <= d operations, <= 2 initial messages',
               'selections are kept alive by their connection state (no garbage-collection timing effects on the WeakSet)']
STUBS = ['coroutines driven with send(None)', 'sessions attached directly (login is C09)']
OUTSIDE = ['maildir new/ directory', 'WeakSet liveness under garbage collection']

_g: dict = {}
OPS = ['select', 'examine', 'close', 'append', 'noop', 'copy_self', 'store_recent', 'append_other', 'append_rf']
# two-mailbox histories: the source of a COPY may be selected read-only while the destination is selected elsewhere
OPS2 = ['select', 'examine', 'select_o', 'examine_o', 'close', 'noop', 'copy_self', 'copy_other', 'append_other']


def setup() -> None:
    from checks import _sim
    _g.update(_sim.bindings())
    _g['_sim'] = _sim


def program(g, sim, base, m, ns, script, check):
    w = sim.World(g, ns, base_uid=base, check=check)
    Recent, Seen = g['Recent'], g['Seen']
    for _ in range(m):
        w.append(0)                     # nobody has it selected: stored as recent
    w.append(0, 'Other')                # likewise in the second mailbox
    ghost = []                          # [(mailbox, uid), set of selection keys that reported it recent]
    selno = [0] * ns
    unclaimed_before_first_rw = None

    def entry(box, uid):
        for e in ghost:
            if e[0][0] == box and e[0][1] is uid:
                return e
        for e in ghost:
            if e[0][0] == box and bool(e[0][1] == uid):
                return e
        e = [(box, uid), set()]
        ghost.append(e)
        return e

    def observe(where):
        for s in range(ns):
            sel = w.states[s]._selected
            if sel is None:
                continue
            rec = list(sel.session_flags.recent_uids)
            if sel.readonly and rec:
                return '%s: read-only selection of session %d reports \\Recent' % (where, s)
            for u in rec:
                entry(sel.lookup, u)[1].add((s, selno[s]))
        for e in ghost:
            if len(e[1]) > 1:
                return '%s: a message was \\Recent in %d selections %r' % (where, len(e[1]), sorted(e[1]))
        for box in ('INBOX', 'Other'):
            for uid, flags, r in w.dump(box):
                if Recent in flags:
                    return '%s: \\Recent stored as a permanent flag' % where
                if r:
                    e = entry(box, uid)
                    if e[1]:
                        return '%s: message both claimed by a session and still stored as unclaimed' % where
        return None

    nsel = sel = None
    for op, s, a in script:
        # no strong reference to a selection may survive in the harness: pymap finds the sessions that have a mailbox
        # selected through a WeakSet, a closed selection must be able to die
        nsel = sel = None
        st = w.states[s]
        sel = st._selected
        if op in ('select', 'examine', 'select_o', 'examine_o'):
            box = 'Other' if op.endswith('_o') else 'INBOX'
            op = op[:-2] if op.endswith('_o') else op
            store = w.dump(box)
            unclaimed = [uid for uid, _, r in store if r]
            cond, resp = w.select(s, box, readonly=(op == 'examine'))
            selno[s] += 1
            if cond != 'OK':
                return '%s answered %s' % (op, cond)
            nsel = st._selected
            if op == 'select':
                # first read-write selector gets every unclaimed message
                got = list(nsel.session_flags.recent_uids)
                if len(got) != len(unclaimed):
                    return 'SELECT claimed %d of %d unclaimed \\Recent messages' % (len(got), len(unclaimed))
                # ... and "unclaimed" is not taken from the store's own bookkeeping alone: a message that no
                # selection has ever reported as \\Recent must be reported by this one
                for uid, _, _ in store:
                    if not entry(box, uid)[1] and not any(bool(uid == x) for x in got):
                        return 'a message that was never \\Recent for anybody is not \\Recent for the first read-write selector'

                # the announced RECENT number
                if w.clients[s].recent != len(got):
                    return 'SELECT announced RECENT %r but %d messages are \\Recent' % (w.clients[s].recent, len(got))
        elif op == 'close':
            if sel is None:
                continue
            w.close(s)
        elif op == 'append':
            w.append(s, 'INBOX')
        elif op == 'append_other':
            w.append(s, 'Other')
        elif op == 'append_rf':
            w.append(s, 'INBOX', flags=[Recent])
        elif op == 'noop':
            w.noop(s)
            nsel = st._selected
            if nsel is not None and not nsel.readonly:
                view = list(nsel.messages._sorted)
                nrec = 0
                for u in nsel.session_flags.recent_uids:
                    if any(bool(u == v) for v in view):
                        nrec += 1
                if w.clients[s].recent is not None and w.clients[s].recent != nrec:
                    return 'RECENT %r announced, %d \\Recent messages in the view' % (w.clients[s].recent, nrec)
        elif op in ('copy_self', 'copy_other'):
            if sel is None:
                continue
            w.copy(s, [a], 'INBOX' if op == 'copy_self' else 'Other')
        elif op == 'store_recent':
            if sel is None or sel.readonly:
                continue
            before = sorted(str(u) for u in sel.session_flags.recent_uids)
            w.store(s, [a], [Recent], 'ADD')
            w.store(s, [(1, '*')], [Recent], 'DELETE')
            w.store(s, [a], [Recent, Seen], 'REPLACE')
            nsel = st._selected
            after = sorted(str(u) for u in nsel.session_flags.recent_uids)
            if before != after:
                return 'STORE changed the \\Recent set of the session'
        nsel = sel = None
        err = observe('after %s by %d' % (op, s))
        if err:
            return err
    return None


def _harness(m, ns, d, ops, prefix=()):
    def fn(eng):
        from pysymex import SymUid, B, AND, Outcome
        base = eng.fresh_int('base', 0, cls=SymUid)
        script = [tuple(x) for x in prefix]
        for t in range(d):
            op = ops[eng.choose('op%d' % t, len(ops))]
            s = eng.choose('s%d' % t, ns)
            a = None
            if op in ('copy_self', 'copy_other', 'store_recent'):
                a = eng.fresh_int('a%d' % t, 1, m + d + 1, cls=SymUid)
            script.append((op, s, a))
        obligations = []

        def wit(mdl):
            return {'base': base.eval(mdl), 'm': m, 'ns': ns,
                    'script': [[op, s, None if a is None else a.eval(mdl)] for op, s, a in script]}
        err = program(_g, _g['_sim'], base, m, ns, script, lambda c, msg='': obligations.append(B(c)))
        if err is not None:
            return Outcome(False, witness=wit, info=err)
        return Outcome(AND(*obligations), witness=wit)
    return fn


def harnesses(tier):
    from pysymex.runner import Harness
    if tier == 'quick':
        cfgs = [(1, 2, 3, OPS), (1, 3, 3, ['select', 'examine', 'close', 'append', 'noop']), (1, 2, 3, OPS2)]
        pre = [(0, 2, 3, ['select', 'close', 'append', 'noop'], [('select', 0, None), ('append', 1, None)])]
    else:
        cfgs = [(1, 2, 4, OPS), (2, 3, 4, ['select', 'examine', 'close', 'append', 'noop', 'copy_self']), (1, 2, 4, OPS2),
                (1, 3, 4, ['select', 'examine_o', 'select_o', 'copy_self', 'copy_other', 'noop'])]
        pre = [(0, 3, 4, ['select', 'examine', 'close', 'append', 'noop'], [('select', 0, None), ('append', 1, None)])]
    hs = [Harness('history[m=%d,sessions=%d,d=%d,ops=%d]' % (m, ns, d, len(ops)), _harness(m, ns, d, ops),
                  {'initial_messages': m, 'sessions': ns, 'history_depth': d, 'ops': ops},
                  replay='history', task_budget=60) for m, ns, d, ops in cfgs]
    # histories that start from "a session has the mailbox selected and another party delivered into it"
    for m, ns, d, ops, prefix in pre:
        hs.append(Harness('history_after_delivery[m=%d,sessions=%d,d=%d,ops=%d]' % (m, ns, d, len(ops)),
                          _harness(m, ns, d, ops, prefix),
                          {'initial_messages': m, 'sessions': ns, 'prefix': [list(x) for x in prefix], 'history_depth': d, 'ops': ops},
                          replay='history', task_budget=60))
    from checks import c17_maildir, c04_maildir
    mg = c04_maildir.bindings()
    for n in ([2, 3] if tier == 'quick' else [2, 3, 4]):
        hs.append(Harness('maildir_claim_recent[n=%d]' % n, c17_maildir.harness(mg, n),
                          {'messages': n, 'in_new': 'any subset', 'uidlist_record_order': 'any permutation'},
                          replay='mdclaim', task_budget=60))
    return hs


def replay(harness, w):
    if harness == 'mdclaim':
        from checks import c17_maildir
        bad = c17_maildir.replay(w)
        return {'violates': bool(bad), 'detail': bad[:3], 'category': 'maildir claim_recent'}
    from checks import _sim
    g = _sim.bindings()
    bad = []

    def check(c, msg=''):
        if not c:
            bad.append(msg or 'obligation failed')
    err = program(g, _sim, w['base'], w['m'], w['ns'], [tuple(x) for x in w['script']], check)
    if err:
        bad.append(err)
    return {'violates': bool(bad), 'detail': bad[:3], 'category': (bad[0] if bad else '').split(':')[-1][:70]}


def classify(harness, w, res):
    return None

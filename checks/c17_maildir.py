"""C17 on the maildir backend: who gets \\Recent for what was delivered into new/ while nobody had the folder selected.

The real MailboxData.claim_recent and the real pymap Maildir.claim_new (pymap's subclass of mailbox.Maildir; the object
is built without the standard library constructor, claim_new only needs its paths) run on the in-memory directory tree
of _mdset.  A folder holds n messages, each recorded in dovecot-uidlist; which of them are still in new/ (delivered, never
claimed) and which are in cur/ is drawn by the engine, and so is the order of the records in the uidlist.  Oracle: the
selection is given \\Recent for exactly the messages that were in new/, and afterwards new/ is empty.

No pymap / pysymex imports at module level.
"""
from __future__ import annotations


def scenario(g, install, in_new, order):
    """in_new[i]: message i is in new/ ; order: permutation of range(n), the order of the uidlist records.
    returns error|None"""
    from checks import _mdset
    from checks.c04_maildir import _Sleep
    fs = _mdset.make_dirfs()
    install(fs, lambda: 0, lambda d: _Sleep(d))
    try:
        from pymap.backend.maildir.mailbox import Maildir, MailboxData
        UidList, Record, ObjectId = g['UidList'], g['Record'], g['ObjectId']
        path = '/m/A'
        for d in ('/m', path, path + '/new', path + '/cur', path + '/tmp'):
            fs.dirs.add(d)
        n = len(in_new)
        ul = UidList(path, 7, n + 1, b'0' * 32)
        for i in order:
            key = 'k%d' % i
            if in_new[i]:
                fs.files[path + '/new/' + key] = []
                ul._records[i + 1] = Record(i + 1, {}, key)
            else:
                fs.files[path + '/cur/' + key + ':2,S'] = []
                ul._records[i + 1] = Record(i + 1, {}, key + ':2,S')
        ul.file_write()
        md = Maildir.__new__(Maildir)
        md._path = path
        md._paths = {'new': path + '/new', 'cur': path + '/cur', 'tmp': path + '/tmp'}
        md.colon = ':'
        mbx = MailboxData(ObjectId(b'A'), md, path)
        got = []

        class _Flags:
            def add_recent(self, uid):
                got.append(uid)

        class _Selected:
            session_flags = _Flags()
        co = mbx.claim_recent(_Selected())
        for _ in range(100):
            try:
                co.send(None)
            except StopIteration:
                break
        else:
            return 'claim_recent did not finish'
        want = sorted(i + 1 for i in range(n) if in_new[i])
        if sorted(got) != want:
            return 'messages %r were in new/, the selection was given \\Recent for %r' % (want, sorted(got))
        left = [f for f in fs.files if f.startswith(path + '/new/')]
        if left:
            return 'claimed messages are still in new/: %r' % left
        return None
    finally:
        install(None, None, None)


def harness(g_ref, n):
    def fn(eng):
        from pysymex import loader, Outcome
        from pysymex.core import SymInt
        import itertools
        SymInt.HASH_OK = True
        in_new = [bool(eng.flip('new%d' % i)) for i in range(n)]
        perms = list(itertools.permutations(range(n)))
        order = list(perms[eng.choose('order', len(perms))])

        def install(fs, clock, sleep):
            loader.FS_HOOK[0] = fs
            loader.ENV_HOOK['clock'] = clock
            loader.ENV_HOOK['sleep'] = sleep
        err = scenario(g_ref, install, in_new, order)
        return Outcome(err is None, witness=lambda m: {'in_new': in_new, 'order': order}, info=err)
    return fn


def replay(w):
    import sys
    import os as _os
    import types
    import pymap.concurrent as C
    from checks import c04_maildir
    g = c04_maildir.bindings()
    import pymap.backend.maildir.mailbox  # noqa: F401
    mods = [C] + [m for n, m in sorted(sys.modules.items()) if n.startswith('pymap.backend.maildir') and m is not None]
    saved = {m: (m.__dict__.get('os'), m.__dict__.get('time'), m.__dict__.get('asyncio'), m.__dict__.get('NamedTemporaryFile'))
             for m in mods}

    def install(fs, clock, sleep):
        if fs is None:
            for m, (o, t, a, nt) in saved.items():
                for k, v in (('os', o), ('time', t), ('asyncio', a), ('NamedTemporaryFile', nt)):
                    if v is not None:
                        setattr(m, k, v)
                m.__dict__.pop('open', None)
            return
        pathns = types.SimpleNamespace(**{k: getattr(_os.path, k) for k in dir(_os.path) if not k.startswith('__')})
        pathns.exists = fs.path_exists
        pathns.isdir = fs.path_isdir
        pathns.isfile = fs.path_isfile
        o = types.SimpleNamespace(**{k: getattr(_os, k) for k in ('sep', 'getcwd', 'fspath', 'getpid', 'urandom')})
        o.__dict__.update(stat=fs.stat, unlink=fs.unlink, remove=fs.remove, rename=fs.rename, path=pathns,
                          listdir=fs.listdir, walk=fs.walk, rmdir=fs.rmdir)
        for m in mods:
            if 'os' in m.__dict__:
                m.os = o
            m.open = fs.open
            if 'NamedTemporaryFile' in m.__dict__:
                m.NamedTemporaryFile = fs.named_temp
        C.time = types.SimpleNamespace(time=clock)
        a = types.SimpleNamespace(**{k: v for k, v in vars(saved[C][2]).items() if not k.startswith('__')})
        a.sleep = sleep
        C.asyncio = a
    err = scenario(g, install, w['in_new'], w['order'])
    return [err] if err else []

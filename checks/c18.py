"""C18 - how an argument is spelled does not change what it means.

Metamorphic, over symbolic values: all applicable wire spellings of a string
value (atom / quoted / {n} via the continuation loop / {n+}) parse to the
same value through the real parsers; re-serialising any parsed object and
parsing it again yields the same value and consumes exactly its own bytes;
mailbox names round-trip through modified UTF-7; sequence sets, flags,
numbers and lists round-trip.
"""
from __future__ import annotations

ID = 'C18'
LEVEL = 'model_checking'
TIME_BUDGET = {'quick': 900, 'thorough': 5400}
EXPLANATION = (
    'Bounded symbolic execution of the real parsers/serialisers: value bytes '
    '(or whole buffers) are z3 integers, lengths concrete per run; sequence-set '
    'numbers are z3 integers 1..9999; each path ends in a proof query that the '
    'sibling spellings agree / the round trip is the identity.')
FUNCTIONS = [
    'pymap.parsing.primitives:QuotedString.parse', 'pymap.parsing.primitives:QuotedString.__bytes__',
    'pymap.parsing.primitives:LiteralString.parse', 'pymap.parsing.primitives:String.parse',
    'pymap.parsing.primitives:Atom.parse', 'pymap.parsing.primitives:Number.parse',
    'pymap.parsing.primitives:List.parse', 'pymap.parsing.primitives:List.__bytes__',
    'pymap.parsing.specials.astring:AString.parse', 'pymap.parsing.specials.astring:AString.__bytes__',
    'pymap.parsing.specials.mailbox:Mailbox.parse', 'pymap.parsing.specials.mailbox:Mailbox.__bytes__',
    'pymap.parsing.modutf7:modutf7_encode', 'pymap.parsing.modutf7:modutf7_decode',
    'pymap.parsing.specials.sequenceset:SequenceSet.parse', 'pymap.parsing.specials.sequenceset:SequenceSet.__bytes__',
    'pymap.parsing.specials.sequenceset:SequenceSet.build', 'pymap.parsing.specials.sequenceset:SequenceSet._get_range',
    'pymap.parsing.specials.flag:Flag.parse', 'pymap.parsing.specials.flag:Flag.__init__',
    'pymap.parsing.commands:Commands.parse', 'pymap.parsing.command.nonauth:LoginCommand.parse',
    'pymap.parsing.state:ExpectContinuation.consume', 'pymap.imap:IMAPConnection.readline',
    'pymap.imap:IMAPConnection.read_continuation', 'pymap.imap:IMAPConnection.read_command',
    'pymap.imap:IMAPConnection._interrupt',
]
ASSUMPTIONS = [
    'value / buffer length <= the stated bound',
    'mailbox names: any code points except lone surrogates, length <= 2 (quick) / 3 (thorough); printable ASCII up to 4 / 6; '
    'names whose upper-case form is INBOX only through non-ASCII case mapping are outside (ASCII case model)',
    'sequence-set numbers < 10^4 (decimal rendering forks on the digit count; larger numbers are outside)',
]
STUBS = ['UTF-7 / UTF-16-BE / base64: exact models (pysymex.codecs7), validated by pysymex.difftest',
         'the continuation loop of IMAPConnection.read_command is replayed by the harness: on '
         'ParsingInterrupt the announced literal_length bytes plus the rest of the line are appended '
         'to ParsingState.continuations and parsing restarts (same as read_command/_interrupt)']
OUTSIDE = ['date-time (strptime/strftime)', 'case mapping outside ASCII',
           'end-to-end command effects (only parsed command objects are compared)']

_g: dict = {}


def setup() -> None:
    from pysymex import symbytes
    symbytes.SymBytes.HASH_OK = True  # Flag.__init__ caches hash(value); no container lookups here
    from pymap.parsing import Params
    from pymap.parsing.state import ParsingState, ParsingInterrupt, ExpectContinuation
    from pymap.parsing.exceptions import NotParseable
    from pymap.parsing.primitives import QuotedString, LiteralString, String, Atom, Number, List, Nil
    from pymap.parsing.specials import AString, Mailbox, SequenceSet, Flag, Tag
    from pymap.parsing.commands import Commands, InvalidCommand
    from pymap.parsing.command.nonauth import LoginCommand
    from pymap.parsing.modutf7 import modutf7_encode, modutf7_decode
    _g.update(locals())
    from checks import _sim
    for k, val in _sim.bindings().items():
        _g.setdefault(k, val)
    from pymap.imap import IMAPConnection
    from pymap.context import connection_exit
    from pymap.backend.dict import Login
    _g.update(IMAPConnection=IMAPConnection, connection_exit=connection_exit, Login=Login)


def _parse_with_conts(parse, buf, mk_params, follow):
    """the read_command loop: `follow` are the bytes that arrive after the
    line `buf` (literal payload + rest of line)"""
    conts = []
    for _ in range(4):
        params = mk_params(_g['ParsingState'](continuations=conts))
        try:
            return parse(buf, params), conts
        except _g['ParsingInterrupt'] as intr:
            exp = intr.expected
            assert isinstance(exp, _g['ExpectContinuation'])
            if follow is None:
                raise
            n = exp.literal_length
            # read_continuation: exactly n bytes, then one line
            conts.append(follow(n))
    raise RuntimeError('continuation loop did not converge')


def _reparse(P, raw):
    """parse the serialised form again; a synchronising literal ({n} CRLF data) arrives in two pieces, the
    header line first and the data as continuation, exactly as the connection loop delivers it"""
    mvraw = _mv(raw)
    first = mvraw[0:1]
    if len(raw) and (bool(first == b'{') or bool(first == b'~')):
        cut = None
        for i in range(len(raw)):
            if bool(mvraw[i:i + 1] == b'\n'):
                cut = i + 1
                break
        if cut is not None:
            head, tail = mvraw[:cut], mvraw[cut:]
            (obj2, rest2), conts = _parse_with_conts(P.parse, head, lambda st: _g['Params'](st), lambda n: tail)
            return obj2, rest2
    return P.parse(mvraw, _g['Params']())


def _mv(x):
    from pysymex import SymBytes
    if isinstance(x, SymBytes):
        return x.as_kind('memoryview')
    return memoryview(x)


# ---------------------------------------------------------------- harnesses
def _h_reparse(cls_name, n, lead=b''):
    """P.parse(buf) = (x, rest)  ==>  bytes(x) is exactly the consumed bytes
    (modulo leading spaces) and P.parse(bytes(x)) = (x, b'')"""
    def fn(eng):
        from pysymex import fresh_bytes, SymBytes, B, AND, Outcome
        P = _g[cls_name]
        NP = _g['NotParseable']
        body = fresh_bytes(eng, 'b', n)
        buf = SymBytes(list(lead) + body.items, 'memoryview')
        wit = lambda m: {'buf': bytes(buf.eval(m)).hex()}  # noqa: E731
        try:
            obj, rest = P.parse(buf, _g['Params']())
        except NP:
            return Outcome(True, site='rejected', witness=wit)
        except _g['ParsingInterrupt']:
            return Outcome(True, site='interrupt', witness=wit)
        raw = obj.__bytes__()
        consumed = buf[:len(buf) - len(rest)]
        props = [B(rest == buf[len(buf) - len(rest):])]
        try:
            obj2, rest2 = _reparse(P, raw)
        except NP:
            return Outcome(False, site='parsed', witness=wit)
        props.append(len(rest2) == 0)
        props.append(B(obj2.value == obj.value))
        return Outcome(AND(*props), site='parsed', witness=wit)
    return fn


def _quote(v):
    """quoted spelling of the value items (forks on specials)"""
    out = [34]
    for c in v:
        if c == 34 or c == 92:
            out += [92, c]
        else:
            out.append(c)
    return out + [34]


def _h_spellings(n):
    """LOGIN <spelling(v)> p -- every spelling yields userid == v"""
    def fn(eng):
        from pysymex import fresh_bytes, SymBytes, B, AND, Outcome
        cmds = _g['Commands']()
        v = fresh_bytes(eng, 'v', n)
        wit = lambda m: {'v': bytes(v.eval(m)).hex()}  # noqa: E731
        tail = list(b' p\r\n')
        results = []

        def run(line_items, follow=None):
            (cmd, rest), _ = _parse_with_conts(
                cmds.parse, SymBytes(line_items, 'memoryview'),
                lambda st: _g['Params'](st), follow)
            return cmd, rest
        # {n+} non-synchronising literal: always applicable
        cmd, rest = run(list(b'a LOGIN {%d+}\r\n' % n) + v.items + tail)
        if not isinstance(cmd, _g['LoginCommand']):
            return Outcome(False, site='litplus-rejected', witness=wit)
        results.append(cmd)
        # {n} synchronising literal through the continuation loop
        cmd, rest = run(list(b'a LOGIN {%d}\r\n' % n),
                        follow=lambda k: SymBytes((v.items + tail)[:k] + (v.items + tail)[k:], 'memoryview'))
        if not isinstance(cmd, _g['LoginCommand']):
            return Outcome(False, site='literal-rejected', witness=wit)
        results.append(cmd)
        site = 'lit'
        # quoted: a legal spelling unless v contains CR, LF or NUL (RFC 3501 QUOTED-CHAR)
        has_crlf = False
        for c in v.items:
            if c == 13 or c == 10 or c == 0:
                has_crlf = True
                break
        if not has_crlf:
            cmd, rest = run(list(b'a LOGIN ') + _quote(v.items) + tail)
            if not isinstance(cmd, _g['LoginCommand']):
                return Outcome(False, site='quoted-rejected', witness=wit)
            results.append(cmd)
            site += '+quoted'
            # atom: applicable iff every byte is an astring char
            if n > 0 and _g['AString']._pattern.fullmatch(v.as_kind('memoryview')):
                cmd, rest = run(list(b'a LOGIN ') + v.items + tail)
                if not isinstance(cmd, _g['LoginCommand']):
                    return Outcome(False, site='atom-rejected', witness=wit)
                results.append(cmd)
                site += '+atom'
        props = []
        for cmd in results:
            props.append(B(cmd.userid == v))
            props.append(B(cmd.password == b'p'))
        return Outcome(AND(*props), site=site, witness=wit)
    return fn


def _h_fetch_header_spellings(n):
    """FETCH 1 BODY[HEADER.FIELDS (<spelling(v)>)] -- the header field name is an astring: every legal spelling of the
    same name (non-synchronising / synchronising literal, quoted, atom) names the same header field"""
    def fn(eng):
        from pysymex import fresh_bytes, SymBytes, B, AND, Outcome
        cmds = _g['Commands']()
        v = fresh_bytes(eng, 'v', n)
        wit = lambda m: {'v': bytes(v.eval(m)).hex()}  # noqa: E731
        head = list(b'a FETCH 1 BODY[HEADER.FIELDS (')
        tail = list(b')]\r\n')
        results = []

        def run(line_items, follow=None):
            (cmd, rest), _ = _parse_with_conts(
                cmds.parse, SymBytes(line_items, 'memoryview'),
                lambda st: _g['Params'](st), follow)
            return cmd, rest

        def names(cmd):
            if type(cmd).__name__ != 'FetchCommand':
                return None
            attrs = list(cmd.attributes)
            if len(attrs) != 1 or attrs[0].section is None or attrs[0].section.headers is None:
                return None
            return list(attrs[0].section.headers)
        cmd, rest = run(head + list(b'{%d+}\r\n' % n) + v.items + tail)
        got = names(cmd)
        if got is None:
            return Outcome(False, site='litplus-rejected', witness=wit)
        results.append(('litplus', got))
        cmd, rest = run(head + list(b'{%d}\r\n' % n),
                        follow=lambda k: SymBytes((v.items + tail)[:k] + (v.items + tail)[k:], 'memoryview'))
        got = names(cmd)
        if got is None:
            return Outcome(False, site='literal-rejected', witness=wit)
        results.append(('literal', got))
        site = 'lit'
        special = False
        for c in v.items:
            if c == 13 or c == 10 or c == 0:
                special = True
                break
        if not special:
            cmd, rest = run(head + _quote(v.items) + tail)
            got = names(cmd)
            if got is None:
                return Outcome(False, site='quoted-rejected', witness=wit)
            results.append(('quoted', got))
            site += '+quoted'
            if n > 0 and _g['AString']._pattern.fullmatch(v.as_kind('memoryview')):
                cmd, rest = run(head + v.items + tail)
                got = names(cmd)
                if got is not None:          # ']' and ')' end an atom here; such values are simply not atoms in this place
                    results.append(('atom', got))
                    site += '+atom'
        want = v.upper()
        props = []
        for how, got in results:
            if len(got) != 1:
                return Outcome(False, site=site, witness=wit, info='%s spelling names %d fields' % (how, len(got)))
            if len(got[0]) != n:
                return Outcome(False, site=site, witness=wit,
                               info='%s spelling names a field of %d octets instead of %d' % (how, len(got[0]), n))
            props.append(B(got[0] == want))
        return Outcome(AND(*props), site=site, witness=wit, info='a spelling names another header field')
    return fn


def conn_spellings(g, v, has_crlf, is_atom, mk, role='user'):
    """LOGIN <user-spelling> <password-spelling> through the real connection loop
    (IMAPConnection.readline / read_continuation / read_command): every pair of
    spellings must be answered identically.  v: list of byte items."""
    from checks import _conn, _sim
    from checks.c09 import _Hash

    class Cfg(g['Config']):
        @property
        def password_prep(self):
            return lambda s: s
    cfg = Cfg.from_args(_sim.FakeArgs(), hash_context=_Hash(), cpu_subsystem=g['Subsystem'].for_asyncio(),
                        invalid_user_sleep=0.0)
    pw = list(b'pw')

    def spell(val, how):
        n = len(val)
        if how == 'nonsync':
            return list(b'{%d+}\r\n' % n) + val
        if how == 'sync':
            return list(b'{%d}\r\n' % n) + val
        if how == 'quoted':
            return _quote(val)
        return list(val)
    hows_v = ['nonsync', 'sync'] + ([] if has_crlf else ['quoted']) + (['atom'] if is_atom else [])
    hows_c = ['nonsync', 'sync', 'quoted', 'atom']
    hows_u, hows_p = (hows_v, hows_c) if role == 'user' else (hows_c, hows_v)
    results = {}
    for hu in hows_u:
        for hp in hows_p:
            if role == 'user':
                stream = list(b'a LOGIN ') + spell(v, hu) + [32] + spell(pw, hp) + [13, 10]
            else:
                stream = list(b'a LOGIN ') + spell(pw, hu) + [32] + spell(v, hp) + [13, 10]
            stream += list(b'b NOOP\r\n')
            login = g['Login'](cfg)
            tr, state, exc = _conn.run_imap(g, login, cfg, [mk(stream)], local=True)
            if exc is not None:
                return 'connection raised %r for %s/%s' % (exc, hu, hp)
            out = bytes(x if isinstance(x, int) else 63 for x in tr.output())
            lines, conds = _conn.tagged(list(out))
            extra = [t for t in conds if t not in (b'a', b'b')]
            results[(hu, hp)] = (conds.get(b'a'), conds.get(b'b'), len(extra))
    base = results[('nonsync', 'nonsync')]
    for k, r in results.items():
        if r != base:
            return 'LOGIN spelled %s/%s answered %r, spelled {n+}/{n+} answered %r' % (k[0], k[1], r, base)
    if base[0] != 'NO' or base[1] != 'OK' or base[2] != 0:
        return 'unexpected baseline %r' % (base,)
    return None


def _h_conn_spellings(n, role='user', suffix=b''):
    def fn(eng):
        from pysymex import fresh_bytes, SymBytes, Outcome
        v = fresh_bytes(eng, 'v', n)
        for c in v.items:
            eng.add(c.t < 128)
        v = SymBytes(v.items + list(suffix), 'bytes')
        wit = lambda m: {'v': bytes(v.eval(m)).hex(), 'role': role}  # noqa: E731
        has_crlf = False
        for c in v.items:
            if c == 13 or c == 10 or c == 0:
                has_crlf = True
                break
        is_atom = (not has_crlf) and len(v) > 0 and bool(_g['AString']._pattern.fullmatch(v.as_kind('memoryview')))
        err = conn_spellings(_g, v.items, has_crlf, is_atom, lambda items: SymBytes(items, 'bytes'), role)
        return Outcome(err is None, witness=wit, info=err)
    return fn


def _h_cmdcase():
    """letter case of the command word is irrelevant"""
    word = b'select'

    def fn(eng):
        from pysymex import SymBytes, SymInt, B, AND, Outcome
        import z3
        bits = [eng.fresh_bool('up%d' % i) for i in range(len(word))]
        items = [SymInt(z3.If(b.t, c - 32, c)) for b, c in zip(bits, word)]
        line = SymBytes(list(b'a ') + items + list(b' INBOX\r\n'), 'memoryview')
        cmd, rest = _g['Commands']().parse(line, _g['Params']())
        wit = lambda m: {'line': bytes(line.eval(m)).hex()}  # noqa: E731
        ok = type(cmd).__name__ == 'SelectCommand' and cmd.mailbox == 'INBOX' and len(rest) == 0
        return Outcome(ok, witness=wit)
    return fn


# one well-formed argument string per registered command word (a word missing here is compared with no arguments);
# {N} stands for a literal header whose size is a symbolic integer
CASE_ARGS = {
    b'APPEND': b' INBOX {N}', b'AUTHENTICATE': b' PLAIN', b'COPY': b' 1:2 Other', b'CREATE': b' x', b'DELETE': b' x',
    b'EXAMINE': b' INBOX', b'FETCH': b' 1 (FLAGS BODY[HEADER.FIELDS (to)])', b'ID': b' NIL', b'LIST': b' "" *',
    b'LOGIN': b' u {N}', b'LSUB': b' "" *', b'MOVE': b' 1 Other', b'RENAME': b' a b', b'SEARCH': b' OR SEEN subject x',
    b'SELECT': b' INBOX', b'STATUS': b' INBOX (MESSAGES)', b'STORE': b' 1 +flags (\\Seen)', b'SUBSCRIBE': b' x',
    b'UID COPY': b' 1:2 Other', b'UID EXPUNGE': b' 1', b'UID FETCH': b' 1 (FLAGS)', b'UID MOVE': b' 1 Other',
    b'UID SEARCH': b' ALL', b'UID STORE': b' 1 flags ()', b'UNSUBSCRIBE': b' x',
}


def _cmd_summary(g, parse, line):
    """(kind, comparable form) of parsing one line"""
    try:
        cmd, rest = parse(line)
    except g['ParsingInterrupt']:
        return ('interrupt', None)
    name = type(cmd).__name__
    if name == 'InvalidCommand':
        code = getattr(getattr(cmd, 'parse_exc', None), 'code', None) or getattr(cmd, 'code', None)
        return ('invalid', bytes(code) if code is not None else None)
    return (name, len(rest))


def cmdcase_line(word, variant_items, n_items):
    args = CASE_ARGS.get(word, b'')
    out = list(b'a ') + list(variant_items)
    for part in [args]:
        i = part.find(b'{N}')
        if i < 0:
            out += list(part)
        else:
            out += list(part[:i]) + [123] + list(n_items) + [125] + list(part[i + 3:])
    return out + [13, 10]


def _h_cmdcase_all(word):
    """letter case of any command word is irrelevant, also for what depends on the command (literal size limits)"""
    def fn(eng):
        from pysymex import SymBytes, SymInt, B, AND, Outcome
        from pysymex.symbytes import render_int
        import z3
        letters = [i for i, c in enumerate(word) if 65 <= c <= 90]
        bits = {i: eng.fresh_bool('lo%d' % i) for i in letters}
        items = [SymInt(z3.If(bits[i].t, c + 32, c)) if i in bits else c for i, c in enumerate(word)]
        uses_n = b'{N}' in CASE_ARGS.get(word, b'')
        n = eng.fresh_int('n', 0, 9999999) if uses_n else None
        nit = list(render_int(n, 7)) if uses_n else []
        parse = lambda ln: _g['Commands']().parse(SymBytes(ln, 'memoryview'), _g['Params'](max_append_len=100000))  # noqa: E731
        ref = _cmd_summary(_g, parse, cmdcase_line(word, list(word), nit))
        got = _cmd_summary(_g, parse, cmdcase_line(word, items, nit))
        wit = lambda m: {'word': word.decode(), 'variant': bytes(SymBytes(items, 'bytes').eval(m)).decode('latin-1'),  # noqa: E731
                         'n': None if n is None else n.eval(m)}
        return Outcome(ref == got, witness=wit, info='%r vs %r' % (ref, got))
    return fn


def _h_mailbox(n, ascii_only=True, hi=0x10FFFF):
    def fn(eng):
        from pysymex import fresh_str, B, AND, Outcome
        s = fresh_str(eng, 's', n, hi=(0x7e if ascii_only else hi))
        for c in s.items:
            if ascii_only:
                eng.add(c.t >= 0x20)
            else:
                eng.add((c.t < 0xD800) | (c.t > 0xDFFF))
        wit = lambda m: {'name': s.concrete(m)}  # noqa: E731
        mbx = _g['Mailbox'](s)
        raw = mbx.__bytes__()
        obj, rest = _g['Mailbox'].parse(_mv(raw), _g['Params']())
        props = [len(rest) == 0, B(obj.value == mbx.value)]
        # the name is kept as given; only an ASCII spelling of INBOX in any letter case stands for INBOX
        if n == 5:
            variant = AND(*[B(c == u) | B(c == u + 32) for c, u in zip(s.items, b'INBOX')])
            props.append(variant | B(mbx.value == s))
            props.append(~variant | B(mbx.value == 'INBOX'))
        elif len(mbx.value) != n:
            return Outcome(False, witness=wit, info='a name of %d characters became one of %d' % (n, len(mbx.value)))
        else:
            props.append(B(mbx.value == s))
        # the encoding itself decodes to the same name
        props.append(B(_g['modutf7_decode'](_g['modutf7_encode'](s)) == s))
        return Outcome(AND(*props), witness=wit)
    return fn


def _h_inbox_alias():
    """which names stand for INBOX: exactly the ASCII spellings of the five letters in any case (RFC 3501 5.1); any other
    name of five code points - look-alikes included - stays the name it is"""
    def fn(eng):
        from pysymex import fresh_str, B, AND, Outcome
        s = fresh_str(eng, 's', 5, hi=0x10FFFF)
        for c in s.items:
            eng.add((c.t < 0xD800) | (c.t > 0xDFFF))
        wit = lambda m: {'name': s.concrete(m)}  # noqa: E731
        mbx = _g['Mailbox'](s)
        if len(mbx.value) != 5:
            return Outcome(False, witness=wit, info='a name of 5 characters became one of %d' % len(mbx.value))
        variant = AND(*[B(c == u) | B(c == u + 32) for c, u in zip(s.items, b'INBOX')])
        return Outcome((variant | B(mbx.value == s)) & (~variant | B(mbx.value == 'INBOX')), witness=wit,
                       info='a name that is not an ASCII spelling of INBOX is taken for INBOX')
    return fn


def _h_seqset(shape):
    """shape: tuple of 'n' (number), 'r' (range), 's' (*), 'rs' (n:*), 'sr' (*:n)"""
    def fn(eng):
        from pysymex import B, AND, Outcome
        SS = _g['SequenceSet']
        mx = SS._max
        vals = []
        seqs = []
        for i, k in enumerate(shape):
            a = eng.fresh_int('a%d' % i, 1)
            b = eng.fresh_int('b%d' % i, 1)
            vals += [a, b]
            seqs.append({'n': a, 'r': (a, b), 's': mx, 'rs': (a, mx), 'sr': (mx, b)}[k])
        wit = lambda m: {'shape': list(shape), 'vals': [v.eval(m) for v in vals]}  # noqa: E731
        ss = SS(seqs, uid=True)
        raw = ss.__bytes__()
        obj, rest = SS.parse(_mv(raw), _g['Params'](uid=True))
        props = [len(rest) == 0, len(obj.value) == len(seqs)]
        if len(obj.value) != len(seqs):
            return Outcome(False, witness=wit)
        for x, y in zip(obj.value, seqs):
            if isinstance(y, tuple):
                if not isinstance(x, tuple):
                    return Outcome(False, witness=wit)
                for p, q in zip(x, y):
                    props.append(B(p == q) if not (p is mx or q is mx) else (p is q))
            else:
                if isinstance(x, tuple):
                    return Outcome(False, witness=wit)
                props.append(B(x == y) if not (x is mx or y is mx) else (x is y))
        return Outcome(AND(*props), witness=wit)
    return fn


def _h_seqbuild(k):
    """SequenceSet.build(uids) denotes exactly the given set (C04 also uses it)"""
    def fn(eng):
        from pysymex import B, AND, OR, Outcome, SymUid
        SS = _g['SequenceSet']
        uids = [eng.fresh_int('u%d' % i, 1, cls=SymUid) for i in range(k)]
        probe = eng.fresh_int('x', 1)
        top = eng.fresh_int('top', 1)
        for u in uids:
            eng.add(u.t <= top.t)
        wit = lambda m: {'uids': [u.eval(m) for u in uids], 'x': probe.eval(m), 'top': top.eval(m)}  # noqa: E731
        ss = SS.build(uids, uid=True)
        # membership of an arbitrary probe in the built set == membership in uids
        member = False
        for elem in ss.value:
            rng = SS._get_range(elem, top)
            if isinstance(rng, tuple):
                continue
            member = OR(member, (probe >= rng.start) & (probe < rng.stop))
        expect = OR(*[probe == u for u in uids])
        # groups are sorted and disjoint (paired zip in COPYUID relies on it)
        return Outcome(B(member == expect), witness=wit)
    return fn


def harnesses(tier):
    from pysymex.runner import Harness
    q = tier == 'quick'
    hs = []
    for n in range(0, (5 if q else 7) + 1):
        hs.append(Harness('quoted_reparse[len=%d]' % (n + 1), _h_reparse('QuotedString', n, b'"'),
                          {'buffer': '\'"\' + %d symbolic bytes' % n}, replay='reparse:QuotedString'))
    for n in range(0, (4 if q else 6) + 1):
        hs.append(Harness('astring_reparse[len=%d]' % n, _h_reparse('AString', n),
                          {'buffer': '%d symbolic bytes' % n}, replay='reparse:AString'))
    for n in range(0, (3 if q else 5) + 1):
        hs.append(Harness('flag_reparse[len=%d]' % n, _h_reparse('Flag', n),
                          {'buffer': '%d symbolic bytes' % n}, replay='reparse:Flag'))
        hs.append(Harness('number_reparse[len=%d]' % n, _h_reparse('Number', n),
                          {'buffer': '%d symbolic bytes' % n}, replay='reparse:Number'))
    for n in range(0, (3 if q else 4) + 1):
        hs.append(Harness('seqset_reparse[len=%d]' % n, _h_reparse('SequenceSet', n),
                          {'buffer': '%d symbolic bytes' % n}, replay='reparse:SequenceSet'))
    for n in range(0, (3 if q else 4) + 1):
        hs.append(Harness('login_spellings[len=%d]' % n, _h_spellings(n), {'value_len': n},
                          replay='spellings'))
    for n in range(1, (2 if q else 3) + 1):
        hs.append(Harness('login_spellings_connection[len=%d]' % n, _h_conn_spellings(n),
                          {'value_len': n, 'spelling_pairs': 'up to 16 per path', 'bytes': '< 128'},
                          replay='connspell', task_budget=20))
    for n in range(1, (2 if q else 3) + 1):
        hs.append(Harness('login_spellings_connection_last_arg[len=%d]' % n, _h_conn_spellings(n, 'pass'),
                          {'value_len': n, 'role': 'last argument of the line'}, replay='connspell', task_budget=20))
    hs.append(Harness('login_spellings_connection_last_arg[1+"{1+}"]', _h_conn_spellings(1, 'pass', b'{1+}'),
                      {'value': '1 symbolic byte + "{1+}"', 'role': 'last argument of the line'},
                      replay='connspell', task_budget=20))
    for n in range(1, (3 if tier == 'quick' else 4) + 1):
        hs.append(Harness('fetch_header_field_spellings[len=%d]' % n, _h_fetch_header_spellings(n), {'name_len': n},
                          replay='hdrspell', task_budget=80))
    hs.append(Harness('command_case', _h_cmdcase(), {'word': 'SELECT, 2^6 case patterns as 6 symbolic bits'},
                      replay='cmdcase'))
    for word in sorted(_g['Commands']().commands.keys()):
        hs.append(Harness('command_case[%s]' % word.decode(), _h_cmdcase_all(word),
                          {'word': word.decode(), 'case': 'one symbolic bit per letter',
                           'literal_size': 'symbolic 0..9999999' if b'{N}' in CASE_ARGS.get(word, b'') else None},
                          replay='cmdcaseall'))
    for n in range(0, (4 if q else 6) + 1):
        hs.append(Harness('mailbox_roundtrip_ascii[len=%d]' % n, _h_mailbox(n), {'name_len': n, 'code_points': '0x20..0x7e'},
                          replay='mailbox'))
    for n in range(0, 2):
        hs.append(Harness('mailbox_roundtrip_unicode[len=%d]' % n, _h_mailbox(n, False),
                          {'name_len': n, 'code_points': 'U+0000..U+10FFFF except surrogates'}, replay='mailbox',
                          timeout_ms=120000))
    for n in ([] if q else [2]):
        hs.append(Harness('mailbox_roundtrip_bmp[len=%d]' % n, _h_mailbox(n, False, 0xFFFF),
                          {'name_len': n, 'code_points': 'U+0000..U+FFFF except surrogates'}, replay='mailbox',
                          timeout_ms=120000))
    hs.append(Harness('inbox_alias', _h_inbox_alias(), {'name_len': 5, 'code_points': 'U+0000..U+10FFFF except surrogates'},
                      replay='inboxalias'))
    shapes = [('n',), ('r',), ('s',), ('rs',), ('sr',), ('n', 'r'), ('r', 'n')]
    if not q:
        shapes += [('n', 'n', 'n'), ('r', 'r'), ('rs', 'n'), ('n', 's'), ('r', 'n', 'r')]
    for sh in shapes:
        hs.append(Harness('seqset_roundtrip%s' % (sh,), _h_seqset(sh), {'shape': sh, 'numbers': '1..9999'},
                          replay='seqset'))
    for k in range(1, (3 if q else 4) + 1):
        hs.append(Harness('seqset_build[k=%d]' % k, _h_seqbuild(k), {'uids': k, 'values': 'unbounded >= 1'},
                          replay='seqbuild'))
    return hs


# ---------------------------------------------------------------- replay
def replay(harness, w):
    from pymap.parsing import Params
    from pymap.parsing.state import ParsingState, ParsingInterrupt
    from pymap.parsing.exceptions import NotParseable
    from pymap.parsing.commands import Commands
    bad = []
    if harness.startswith('reparse:'):
        import pymap.parsing.primitives as prim
        import pymap.parsing.specials as spec
        name = harness.split(':')[1]
        P = getattr(prim, name, None) or getattr(spec, name)
        buf = bytes.fromhex(w['buf'])
        try:
            obj, rest = P.parse(memoryview(buf), Params())
        except (NotParseable, ParsingInterrupt):
            return {'violates': False, 'detail': 'rejected'}
        raw = bytes(obj)
        consumed = buf[:len(buf) - len(rest)]
        try:
            if raw[:1] in (b'{', b'~') and b'\n' in raw:
                # a synchronising literal arrives in two pieces (header line, then data as continuation)
                cut = raw.index(b'\n') + 1
                conts = []
                for _ in range(3):
                    try:
                        obj2, rest2 = P.parse(memoryview(raw[:cut]), Params(ParsingState(continuations=conts)))
                        break
                    except ParsingInterrupt:
                        conts.append(memoryview(raw[cut:]))
            else:
                obj2, rest2 = P.parse(memoryview(raw), Params())
            if len(rest2) or obj2.value != obj.value:
                bad.append('reparse of %r gives %r rest %r' % (raw, obj2.value, bytes(rest2)))
        except NotParseable:
            bad.append('bytes(obj)=%r does not parse' % raw)
    elif harness == 'spellings':
        v = bytes.fromhex(w['v'])
        tail = b' p\r\n'

        def run(line, follow=None):
            conts = []
            while True:
                try:
                    return Commands().parse(memoryview(line), Params(ParsingState(continuations=conts)))[0]
                except ParsingInterrupt as intr:
                    conts.append(memoryview(follow))
        cands = [run(b'a LOGIN {%d+}\r\n' % len(v) + v + tail),
                 run(b'a LOGIN {%d}\r\n' % len(v), v + tail)]
        if b'\r' not in v and b'\n' not in v and b'\0' not in v:
            q = b'"' + v.replace(b'\\', b'\\\\').replace(b'"', b'\\"') + b'"'
            cands.append(run(b'a LOGIN ' + q + tail))
            import pymap.parsing.specials as spec
            if v and spec.AString._pattern.fullmatch(v):
                cands.append(run(b'a LOGIN ' + v + tail))
        for c in cands:
            if getattr(c, 'userid', None) != v or getattr(c, 'password', None) != b'p':
                bad.append('%s -> %r' % (type(c).__name__, getattr(c, 'userid', None)))
    elif harness == 'inboxalias':
        from pymap.parsing.specials import Mailbox
        name = ''.join(chr(c) for c in w['name'])
        got = Mailbox(name).value
        ascii_variant = name.isascii() and name.upper() == 'INBOX'
        if (got == 'INBOX') != ascii_variant or (not ascii_variant and got != name):
            bad.append('mailbox name %r (%s) is taken for %r' % (name, ' '.join('U+%04X' % ord(c) for c in name), got))
    elif harness == 'hdrspell':
        v = bytes.fromhex(w['v'])
        head, tail = b'a FETCH 1 BODY[HEADER.FIELDS (', b')]\r\n'

        def run(line, follow=None):
            conts = []
            while True:
                try:
                    return Commands().parse(memoryview(line), Params(ParsingState(continuations=conts)))[0]
                except ParsingInterrupt:
                    conts.append(memoryview(follow))

        def names(cmd):
            if type(cmd).__name__ != 'FetchCommand':
                return None
            attrs = list(cmd.attributes)
            if len(attrs) != 1 or attrs[0].section is None or attrs[0].section.headers is None:
                return None
            return sorted(attrs[0].section.headers)
        cands = [('litplus', names(run(head + b'{%d+}\r\n' % len(v) + v + tail))),
                 ('literal', names(run(head + b'{%d}\r\n' % len(v), v + tail)))]
        if b'\r' not in v and b'\n' not in v and b'\0' not in v:
            q = b'"' + v.replace(b'\\', b'\\\\').replace(b'"', b'\\"') + b'"'
            cands.append(('quoted', names(run(head + q + tail))))
            import pymap.parsing.specials as spec
            if v and spec.AString._pattern.fullmatch(v):
                got = names(run(head + v + tail))
                if got is not None:
                    cands.append(('atom', got))
        for how, got in cands:
            if got != [v.upper()]:
                bad.append('HEADER.FIELDS name %r spelled as %s names %r' % (v, how, got))
    elif harness == 'connspell':
        from checks import _sim
        import pymap.parsing.specials as spec
        g = _sim.bindings()
        from pymap.imap import IMAPConnection
        from pymap.context import connection_exit
        from pymap.backend.dict import Login
        g.update(IMAPConnection=IMAPConnection, connection_exit=connection_exit, Login=Login)
        v = bytes.fromhex(w['v'])
        has_crlf = b'\r' in v or b'\n' in v or b'\0' in v
        is_atom = (not has_crlf) and bool(v) and bool(spec.AString._pattern.fullmatch(v))
        err = conn_spellings(g, list(v), has_crlf, is_atom, lambda items: bytes(items), w.get('role', 'user'))
        if err:
            bad.append(err)
    elif harness == 'cmdcaseall':
        word = w['word'].encode()
        g = {'ParsingInterrupt': ParsingInterrupt}
        nit = list(b'%d' % w['n']) if w['n'] is not None else []
        parse = lambda ln: Commands().parse(memoryview(bytes(ln)), Params(max_append_len=100000))  # noqa: E731
        ref = _cmd_summary(g, parse, cmdcase_line(word, list(word), nit))
        got = _cmd_summary(g, parse, cmdcase_line(word, list(w['variant'].encode('latin-1')), nit))
        if ref != got:
            bad.append('%s parses to %r, %s to %r' % (w['word'], ref, w['variant'], got))
    elif harness == 'cmdcase':
        line = bytes.fromhex(w['line'])
        cmd, rest = Commands().parse(memoryview(line), Params())
        if type(cmd).__name__ != 'SelectCommand' or cmd.mailbox != 'INBOX':
            bad.append(type(cmd).__name__)
    elif harness == 'mailbox':
        from pymap.parsing.specials import Mailbox
        from pymap.parsing.modutf7 import modutf7_encode, modutf7_decode
        s = w['name'] if isinstance(w['name'], str) else ''.join(chr(c) for c in w['name'])
        raw = bytes(Mailbox(s))
        obj, rest = Mailbox.parse(memoryview(raw), Params())
        if len(rest) or obj.value != Mailbox(s).value:
            bad.append('%r -> %r -> %r' % (s, raw, obj.value))
        if modutf7_decode(modutf7_encode(s)) != s:
            bad.append('modutf7 %r' % s)
    elif harness == 'seqset':
        from pymap.parsing.specials import SequenceSet
        mx = SequenceSet._max
        vals = w['vals']
        seqs = []
        for i, k in enumerate(w['shape']):
            a, b = vals[2 * i], vals[2 * i + 1]
            seqs.append({'n': a, 'r': (a, b), 's': mx, 'rs': (a, mx), 'sr': (mx, b)}[k])
        raw = bytes(SequenceSet(seqs, uid=True))
        obj, rest = SequenceSet.parse(memoryview(raw), Params(uid=True))
        if len(rest) or list(obj.value) != seqs:
            bad.append('%r -> %r -> %r' % (seqs, raw, obj.value))
    elif harness == 'seqbuild':
        from pymap.parsing.specials import SequenceSet
        ss = SequenceSet.build(w['uids'], uid=True)
        got = w['x'] in ss.flatten(w['top'])
        if got != (w['x'] in w['uids']):
            bad.append('build(%r) = %r; probe %r' % (w['uids'], bytes(ss), w['x']))
    return {'violates': bool(bad), 'detail': bad[:3]}


def classify(harness, w, res):
    return None

"""C19 - ManageSieve: no script access before login; the script store is a map.

(a) gate: the real ManageSieveConnection.run on a scripted transport: every
    script command sent before authentication (script names and data
    symbolic) is answered NO and leaves every user's filter set untouched;
    the same commands after AUTHENTICATE act on the authenticated user's set
    only.
(b) map: the real FilterState.run / _do_* and dict FilterSet from an arbitrary
    map state (<= 2 stored names, symbolic names and script bytes, symbolic
    active choice), one command with symbolic operands (inductive step) and
    short programs; a dict + optional-active-name model.
"""
from __future__ import annotations

ID = 'C19'
LEVEL = 'model_checking'
TIME_BUDGET = {'quick': 600, 'thorough': 3600}
EXPLANATION = (
    'Bounded symbolic execution: script names are symbolic strings (equality is '
    'all the map uses), script bytes symbolic, which stored name is active is '
    'symbolic; the command is a fork; obligations: response condition/code, the '
    'returned bytes/listing and the post-state equal the model, per path.')
FUNCTIONS = [
    'pymap.sieve.manage:ManageSieveConnection.run', 'pymap.sieve.manage:ManageSieveConnection._do_authenticate',
    'pymap.sieve.manage:ManageSieveConnection._do_unauthenticate', 'pymap.sieve.manage:ManageSieveConnection._read_data',
    'pymap.sieve.manage.state:FilterState.run', 'pymap.sieve.manage.state:FilterState._do_put_script',
    'pymap.sieve.manage.state:FilterState._do_get_script', 'pymap.sieve.manage.state:FilterState._do_list_scripts',
    'pymap.sieve.manage.state:FilterState._do_set_active', 'pymap.sieve.manage.state:FilterState._do_delete_script',
    'pymap.sieve.manage.state:FilterState._do_rename_script', 'pymap.sieve.manage.state:FilterState._do_have_space',
    'pymap.backend.dict.filter:FilterSet.put', 'pymap.backend.dict.filter:FilterSet.delete',
    'pymap.backend.dict.filter:FilterSet.rename', 'pymap.backend.dict.filter:FilterSet.set_active',
    'pymap.backend.dict.filter:FilterSet.get', 'pymap.backend.dict.filter:FilterSet.get_all',
    'pymap.sieve.manage.command:Command.parse',
]
ASSUMPTIONS = ['<= 2 stored scripts before the step, names of 1 symbolic character (equality only), script data <= 2 bytes',
               'RENAMESCRIPT of a name onto itself may answer NO with either code',
               'CHECKSCRIPT (the sieve compiler) is outside']
STUBS = ['scripted transport (checks/_conn.py); SASL PLAIN runs for real with concrete credentials']
OUTSIDE = ['the sieve compiler / CHECKSCRIPT', 'maildir and redis filter sets', 'STARTTLS handshake']

_g: dict = {}
CMDS = ['put', 'get', 'list', 'setactive', 'clearactive', 'delete', 'rename', 'havespace']


def setup() -> None:
    from pysymex import symbytes
    symbytes.SymStr.HASH_OK = True
    symbytes.SymBytes.HASH_OK = True
    from checks import _sim
    _g.update(_sim.bindings())
    _g['_sim'] = _sim
    from pymap.sieve.manage.state import FilterState
    import pymap.sieve.manage.command as C
    from pymap.sieve.manage.response import Condition, GetScriptResponse, ListScriptsResponse
    from pymap.sieve.manage import ManageSieveConnection
    from pymap.context import connection_exit
    from pymap.backend.dict import Login
    from pymap.user import UserMetadata
    _g.update(locals())


def eqv(a, b):
    return a == b


def step_program(g, sim, init, active_idx, script, check):
    """init: [(name, data)], active_idx: None|index, script: [(cmd, name, name2, data)]"""
    cfg = sim.make_config(g)
    fs = g['FilterSet']()
    other = g['FilterSet']()
    sim.run_coro(other.put('keep', b'x'))
    model = []          # list of [name, data] in insertion order
    for name, data in init:
        sim.run_coro(fs.put(name, data))
        hit = None
        for e in model:
            if bool(e[0] == name):
                hit = e
        if hit:
            hit[1] = data
        else:
            model.append([name, data])
    active = None
    if active_idx is not None and active_idx < len(model):
        active = model[active_idx][0]
        sim.run_coro(fs.set_active(active))
    st = g['FilterState'](fs, b'alice', cfg)
    C, Cond = g['C'], g['Condition']

    def find(name):
        for e in model:
            if bool(e[0] == name):
                return e
        return None
    for cmd, name, name2, data in script:
        if cmd == 'put':
            resp = sim.run_coro(st.run(C.PutScriptCommand(name, data)))
            want = ('OK', None)
            e = find(name)
            if e:
                e[1] = data
            else:
                model.append([name, data])
        elif cmd == 'get':
            resp = sim.run_coro(st.run(C.GetScriptCommand(name)))
            e = find(name)
            want = ('OK', None) if e else ('NO', b'NONEXISTENT')
            if e:
                if not isinstance(resp, g['GetScriptResponse']):
                    return 'GETSCRIPT of a stored name did not return the script'
                check(eqv(resp.script_data, e[1]), 'GETSCRIPT returns the bytes PUTSCRIPT stored')
        elif cmd == 'list':
            resp = sim.run_coro(st.run(C.ListScriptsCommand()))
            want = ('OK', None)
            if not isinstance(resp, g['ListScriptsResponse']):
                return 'LISTSCRIPTS did not list'
            names = list(resp.names)
            if len(names) != len(model):
                return 'LISTSCRIPTS lists %d names, %d are stored' % (len(names), len(model))
            for e in model:
                if not any(bool(n == e[0]) for n in names):
                    return 'LISTSCRIPTS misses a stored name'
            if (resp.active is None) != (active is None):
                return 'LISTSCRIPTS active mark wrong'
            if active is not None:
                check(eqv(resp.active, active), 'LISTSCRIPTS marks the active script')
        elif cmd == 'setactive':
            resp = sim.run_coro(st.run(C.SetActiveCommand(name)))
            e = find(name)
            want = ('OK', None) if e else ('NO', b'NONEXISTENT')
            if e:
                active = e[0]
        elif cmd == 'clearactive':
            resp = sim.run_coro(st.run(C.SetActiveCommand(None)))
            want = ('OK', None)
            active = None
        elif cmd == 'delete':
            resp = sim.run_coro(st.run(C.DeleteScriptCommand(name)))
            e = find(name)
            if not e:
                want = ('NO', b'NONEXISTENT')
            elif active is not None and bool(active == e[0]):
                want = ('NO', b'ACTIVE')
            else:
                want = ('OK', None)
                model.remove(e)
        elif cmd == 'rename':
            resp = sim.run_coro(st.run(C.RenameScriptCommand(name, name2)))
            e, e2 = find(name), find(name2)
            if not e:
                want = ('NO', b'NONEXISTENT')
            elif e2 is e:
                want = ('NO', 'any')
            elif e2:
                want = ('NO', b'ALREADYEXISTS')
            else:
                want = ('OK', None)
                was_active = active is not None and bool(active == e[0])
                e[0] = name2
                if was_active:
                    active = name2
        elif cmd == 'havespace':
            resp = sim.run_coro(st.run(C.HaveSpaceCommand(name, 10)))
            want = ('OK', None)
        got = (resp.condition.name, resp.code)
        if got[0] != want[0] or (want[1] != 'any' and got[1] != want[1]):
            return '%s answered %r, the map model says %r' % (cmd, got, want)
        # post-state equals the model
        stored = list(fs._filters.items())
        if len(stored) != len(model):
            return 'after %s: %d scripts stored, model has %d' % (cmd, len(stored), len(model))
        for e in model:
            hit = [v for k, v in stored if bool(k == e[0])]
            if len(hit) != 1:
                return 'after %s: a model name is stored %d times' % (cmd, len(hit))
            check(eqv(hit[0], e[1]), 'stored bytes equal the model after %s' % cmd)
        if (fs._active is None) != (active is None):
            return 'after %s: active script wrong' % cmd
        if active is not None:
            check(eqv(fs._active, active), 'active name equals the model after %s' % cmd)
        if list(other._filters.items()) != [('keep', b'x')] or other._active is not None:
            return 'another user\'s scripts changed'
    return None


def _h_step(ninit, d):
    def fn(eng):
        from pysymex import fresh_str, fresh_bytes, B, AND, Outcome

        def nm(tag):
            s = fresh_str(eng, tag, 1, hi=0x7e)
            eng.add(s.items[0].t >= 0x21)
            return s
        init = [(nm('i%d' % i), fresh_bytes(eng, 'd%d_' % i, 1)) for i in range(ninit)]
        active_idx = None
        if ninit and eng.flip('has_active'):
            active_idx = eng.choose('active', ninit)
        script = []
        for t in range(d):
            cmd = CMDS[eng.choose('cmd%d' % t, len(CMDS))]
            name = nm('a%d' % t) if cmd not in ('list', 'clearactive') else None
            name2 = nm('b%d' % t) if cmd == 'rename' else None
            data = fresh_bytes(eng, 'x%d_' % t, 2) if cmd == 'put' else None
            script.append((cmd, name, name2, data))
        obligations = []

        def ev(x, m):
            if x is None:
                return None
            if hasattr(x, 'concrete'):
                return x.concrete(m)
            return x

        def wit(m):
            return {'init': [[ev(n, m), ev(dd, m)] for n, dd in init], 'active': active_idx,
                    'script': [[c, ev(a, m), ev(b, m), ev(x, m)] for c, a, b, x in script]}
        err = step_program(_g, _g['_sim'], init, active_idx, script, lambda c, msg='': obligations.append(B(c)))
        if err is not None:
            return Outcome(False, witness=wit, info=err)
        return Outcome(AND(*obligations), witness=wit)
    return fn


# ---------------------------------------------------------------- (a) gate through the connection
PLAIN = b'AGFsaWNlAHB3'      # \0alice\0pw
GATE_CMDS = [b'PUTSCRIPT "{N}" "x"', b'GETSCRIPT "{N}"', b'DELETESCRIPT "{N}"', b'SETACTIVE "{N}"',
             b'RENAMESCRIPT "{N}" "z"', b'LISTSCRIPTS', b'HAVESPACE "{N}" 5', b'CHECKSCRIPT "x"',
             b'UNAUTHENTICATE', b'BOGUS']


def gate(g, sim, conn_mod, cmd_idx, name_items, authed, mk):
    cfg = sim.make_config(g)
    login = g['Login'](cfg)
    for u in ('alice', 'bob'):
        login.users_dict[u] = g['UserMetadata'](cfg, u, password=cfg.hash_context.hash('pw'))
    sets = {}
    for u in ('alice', 'bob'):
        fs = g['FilterSet']()
        sim.run_coro(fs.put('mine', b'keep'))
        sim.run_coro(fs.set_active('mine'))
        sets[u] = fs
        cfg.set_cache[u] = (g['MailboxSet'](), fs)
    tmpl = GATE_CMDS[cmd_idx]
    pre, _, post = tmpl.partition(b'{N}')
    line = list(pre) + (list(name_items) if b'{N}' in tmpl else []) + list(post) + [13, 10]
    feed = []
    if authed:
        feed.append(b'AUTHENTICATE "PLAIN" "' + PLAIN + b'"\r\n')
    feed.append(mk(line))
    feed.append(b'NOOP "end"\r\n')
    from contextlib import AsyncExitStack, closing
    import asyncio
    from proxyprotocol.sock import SocketInfoLocal
    tr = conn_mod.Transport(feed, local=True)

    async def main():
        conn = g['ManageSieveConnection'](login, cfg, tr, tr, SocketInfoLocal(tr))
        async with AsyncExitStack() as stack:
            g['connection_exit'].set(stack)
            await conn.run()
    try:
        asyncio.run(main())
    except Exception as exc:   # noqa: BLE001
        return 'connection raised %r' % (exc,)
    out = bytes(x if isinstance(x, int) else 63 for x in tr.output())
    lines = [ln for ln in out.split(b'\r\n') if ln[:2] in (b'OK', b'NO') or ln[:3] == b'BYE']
    # greeting OK, [auth OK], command, NOOP OK
    need = 4 if authed else 3
    if len(lines) < need:
        return 'expected %d completion lines, got %r' % (need, lines)
    cmd_line = lines[need - 2]
    bob_unchanged = list(sets['bob']._filters.items()) == [('mine', b'keep')] and sets['bob']._active == 'mine'
    if not bob_unchanged:
        return 'the other user\'s scripts changed'
    if authed:
        if not lines[1].startswith(b'OK'):
            return 'AUTHENTICATE PLAIN with valid credentials answered %r' % lines[1]
        if tmpl.startswith(b'PUTSCRIPT'):
            if not cmd_line.startswith(b'OK') or len(sets['alice']._filters) != 2:
                return 'PUTSCRIPT after authentication did not store into the user\'s own set'
        if tmpl.startswith(b'GETSCRIPT') and not cmd_line.startswith(b'NO'):
            return 'GETSCRIPT of a missing name answered %r' % cmd_line
    if not authed:
        if not cmd_line.startswith(b'NO'):
            return 'script command before authentication answered %r' % cmd_line
        if list(sets['alice']._filters.items()) != [('mine', b'keep')] or sets['alice']._active != 'mine':
            return 'script command before authentication changed a script store'
    return None


def _h_gate(nlen):
    def fn(eng):
        from pysymex import fresh_bytes, SymBytes, Outcome
        ci = eng.choose('cmd', len(GATE_CMDS))
        authed = eng.flip('authed')
        nm = fresh_bytes(eng, 'n', nlen)
        for c in nm.items:
            # quoted-string content
            eng.add((c.t >= 0x20) & (c.t <= 0x7e) & (c.t != 0x22) & (c.t != 0x5c))
        wit = lambda m: {'cmd': ci, 'authed': authed, 'name': list(nm.eval(m))}  # noqa: E731
        err = gate(_g, _g['_sim'], __import__('checks._conn', fromlist=['x']), ci, nm.items, authed,
                   lambda items: SymBytes(items, 'bytes'))
        return Outcome(err is None, witness=wit, info=err)
    return fn


# ---------------------------------------------------------------- (c) the map is the user's, not the connection's
PERSIST_OPS = [b'PUTSCRIPT "x" "keep;"', b'PUTSCRIPT "mine" "stop;"', b'SETACTIVE ""', b'SETACTIVE "x"', b'DELETESCRIPT "mine"',
               b'DELETESCRIPT "x"', b'RENAMESCRIPT "x" "y"', 'other-connection', 'relogin',
               # a stored name that is a substring of the active one
               b'PUTSCRIPT "minefield" "keep;"', b'SETACTIVE "minefield"']


def _run_sieve(g, conn_mod, login, cfg, feed):
    import asyncio
    from contextlib import AsyncExitStack
    from proxyprotocol.sock import SocketInfoLocal
    tr = conn_mod.Transport(feed, local=True)

    async def main():
        conn = g['ManageSieveConnection'](login, cfg, tr, tr, SocketInfoLocal(tr))
        async with AsyncExitStack() as stack:
            g['connection_exit'].set(stack)
            await conn.run()
    asyncio.run(main())
    return bytes(x if isinstance(x, int) else 63 for x in tr.output())


def _listing(out):
    """(names -> active?) parsed from the last LISTSCRIPTS answer in `out`"""
    import re
    names = {}
    completions = 0
    for ln in out.split(b'\r\n'):
        if ln[:2] in (b'OK', b'NO') or ln[:3] == b'BYE':
            completions += 1
            continue
        # greeting capabilities end with the 1st completion line, AUTHENTICATE with the 2nd, LISTSCRIPTS with the 3rd
        if completions != 2:
            continue
        m = re.match(rb'^"([^"]*)"( ACTIVE)?$', ln)
        if m:
            names[m.group(1)] = bool(m.group(2))
    return names


def persistence(g, sim, conn_mod, ops, empty_start=False):
    """connection A runs `ops`; 'other-connection' = a second connection of the same user logs in and lists while A
    stays connected; 'relogin' = UNAUTHENTICATE + AUTHENTICATE on A.  Afterwards a fresh connection must see exactly
    what a plain map says.  returns error|None"""
    import threading
    cfg = sim.make_config(g)
    login = g['Login'](cfg)
    login.users_dict['alice'] = g['UserMetadata'](cfg, 'alice', password=cfg.hash_context.hash('pw'))
    fs = g['FilterSet']()
    model = {}
    active = [None]
    if not empty_start:
        sim.run_coro(fs.put('mine', b'keep;'))
        sim.run_coro(fs.set_active('mine'))
        model = {b'mine': b'keep;'}
        active = [b'mine']
    cfg.set_cache['alice'] = (g['MailboxSet'](), fs)
    auth = b'AUTHENTICATE "PLAIN" "' + PLAIN + b'"\r\n'
    side = []

    def other_connection(tr):
        # a whole second connection, run to completion on its own loop in a helper thread while A is parked in a read
        res = {}

        def work():
            try:
                res['out'] = _run_sieve(g, conn_mod, login, cfg, [auth, b'LISTSCRIPTS\r\n', b'LOGOUT\r\n'])
            except Exception as exc:   # noqa: BLE001
                res['exc'] = exc
        t = threading.Thread(target=work)
        t.start()
        t.join()
        side.append(res)
        return None
    feed = [auth]
    for op in ops:
        if op == 'other-connection':
            feed.append(other_connection)
        elif op == 'relogin':
            feed += [b'UNAUTHENTICATE\r\n', auth]
        else:
            feed.append(op + b'\r\n')
            parts = op.split(b'"')
            if op.startswith(b'PUTSCRIPT'):
                model[parts[1]] = parts[3]
            elif op.startswith(b'SETACTIVE'):
                if parts[1] == b'':
                    active[0] = None
                elif parts[1] in model:
                    active[0] = parts[1]
            elif op.startswith(b'DELETESCRIPT'):
                if parts[1] in model and active[0] != parts[1]:
                    del model[parts[1]]
            elif op.startswith(b'RENAMESCRIPT'):
                if parts[1] in model and parts[3] not in model:
                    model[parts[3]] = model.pop(parts[1])
                    if active[0] == parts[1]:
                        active[0] = parts[3]
    feed.append(b'LOGOUT\r\n')
    try:
        _run_sieve(g, conn_mod, login, cfg, feed)
        for res in side:
            if 'exc' in res:
                return 'the second connection raised %r' % (res['exc'],)
        out = _run_sieve(g, conn_mod, login, cfg, [auth, b'LISTSCRIPTS\r\n'] +
                         [b'GETSCRIPT "%s"\r\n' % n for n in sorted(model)] + [b'LOGOUT\r\n'])
    except Exception as exc:   # noqa: BLE001
        return 'connection raised %r' % (exc,)
    got = _listing(out)
    want = {n: (active[0] == n) for n in model}
    if got != want:
        return 'a later connection lists %r, the map says %r' % (got, want)
    for n in model:
        if model[n] not in out:
            return 'a later connection does not get the content stored for %r' % n
    return None


def _h_persistence(d):
    def fn(eng):
        from pysymex import Outcome
        from checks import _conn
        empty = bool(eng.flip('empty_start'))
        ops = [PERSIST_OPS[eng.choose('op%d' % i, len(PERSIST_OPS))] for i in range(d)]
        err = persistence(_g, _g['_sim'], _conn, ops, empty)
        return Outcome(err is None, witness=lambda m: {'ops': [o if isinstance(o, str) else o.decode() for o in ops],
                                                       'empty_start': empty}, info=err)
    return fn


def single_store(g, sim, name, data, had):
    """the single-script store of the maildir backend (pymap.filter.SingleFilterSet; its one script is called "active")
    behind the real FilterState: PUTSCRIPT <name> that is answered OK is followed by a GETSCRIPT <name> returning the same
    bytes; a PUTSCRIPT answered NO leaves the store as it was.  (The other clauses of the map - deleting the active
    script, renaming - are different by design in this store and are not examined here.)  returns error|None"""
    from pymap.filter import SingleFilterSet

    class _Mem(SingleFilterSet):
        def __init__(self):
            self.value = b'old' if had else None

        @property
        def compiler(self):
            raise NotImplementedError()

        async def replace_active(self, value):
            self.value = value

        async def get_active(self):
            return self.value
    fs = _Mem()
    cfg = sim.make_config(g)
    st = g['FilterState'](fs, b'alice', cfg)
    C = g['C']
    before = fs.value
    resp = sim.run_coro(st.run(C.PutScriptCommand(name, data)))
    cond = resp.condition.name.encode()
    if cond not in (b'OK', b'NO'):
        return 'PUTSCRIPT answered %r' % cond
    if cond == b'NO':
        if fs.value is not before:
            return 'PUTSCRIPT answered NO but replaced the script'
        return None
    got = sim.run_coro(st.run(C.GetScriptCommand(name)))
    if not isinstance(got, g['GetScriptResponse']):
        return 'PUTSCRIPT answered OK, GETSCRIPT of the same name does not return a script'
    if not (len(got.script_data) == len(data) and bool(got.script_data == data)):
        return 'GETSCRIPT does not return the bytes PUTSCRIPT stored'
    return None


def _h_single(n):
    def fn(eng):
        from pysymex import fresh_str, fresh_bytes, Outcome
        name = fresh_str(eng, 'n', n, hi=0x7e)
        data = fresh_bytes(eng, 'd', 2)
        had = bool(eng.flip('had_script'))
        wit = lambda m: {'name': name.concrete(m), 'data': bytes(data.eval(m)).hex(), 'had': had}  # noqa: E731
        err = single_store(_g, _g['_sim'], name, data, had)
        return Outcome(err is None, witness=wit, info=err)
    return fn


def harnesses(tier):
    from pysymex.runner import Harness
    q = tier == 'quick'
    hs = []
    for n in ([1, 6] if q else [0, 1, 2, 6]):
        hs.append(Harness('single_script_store[name_len=%d]' % n, _h_single(n),
                          {'name_len': n, 'script_bytes': 2, 'store': 'pymap.filter.SingleFilterSet (maildir backend)'},
                          replay='single', task_budget=30))
    for d in ([3] if q else [3, 4]):
        hs.append(Harness('map_across_connections[ops=%d]' % d, _h_persistence(d),
                          {'operations_on_connection_A': d, 'ops': [o if isinstance(o, str) else o.decode() for o in PERSIST_OPS],
                           'then': 'a fresh connection lists and gets every script; compared with a plain map'},
                          replay='persist', task_budget=60))
    for ninit, d in ([(0, 1), (1, 1), (2, 1), (1, 2)] if q else [(0, 1), (1, 1), (2, 1), (1, 2), (2, 2), (1, 3)]):
        hs.append(Harness('map_step[stored=%d,commands=%d]' % (ninit, d), _h_step(ninit, d),
                          {'stored_before': ninit, 'commands': d, 'names': 'symbolic'}, replay='step', task_budget=60))
    for n in ([1] if q else [1, 2]):
        hs.append(Harness('gate[name_len=%d]' % n, _h_gate(n), {'commands': len(GATE_CMDS), 'name_len': n},
                          replay='gate', task_budget=10))
    return hs


def replay(harness, w):
    from checks import _sim, _conn
    g = _sim.bindings()
    from pymap.sieve.manage.state import FilterState
    import pymap.sieve.manage.command as C
    from pymap.sieve.manage.response import Condition, GetScriptResponse, ListScriptsResponse
    from pymap.sieve.manage import ManageSieveConnection
    from pymap.context import connection_exit
    from pymap.backend.dict import Login
    from pymap.user import UserMetadata
    g.update(locals())
    bad = []
    if harness == 'single':
        err = single_store(g, _sim, ''.join(chr(c) for c in w['name']), bytes.fromhex(w['data']), w['had'])
        return {'violates': err is not None, 'detail': err, 'category': 'single-script store: ' + (err or '')}
    if harness == 'persist':
        err = persistence(g, _sim, _conn, [o if o in ('other-connection', 'relogin') else o.encode() for o in w['ops']],
                          w.get('empty_start', False))
        return {'violates': err is not None, 'detail': err, 'category': (err or '')[:60]}

    def check(c, msg=''):
        if not c:
            bad.append(msg or 'obligation failed')

    def s(x):
        return None if x is None else ''.join(chr(c) for c in x)

    def b(x):
        return None if x is None else bytes(x)
    if harness == 'step':
        init = [(s(n), b(d)) for n, d in w['init']]
        script = [(c, s(a), s(b2), b(x)) for c, a, b2, x in w['script']]
        err = step_program(g, _sim, init, w['active'], script, check)
    else:
        err = gate(g, _sim, _conn, w['cmd'], w['name'], w['authed'], lambda items: bytes(items))
    if err:
        bad.append(err)
    return {'violates': bool(bad), 'detail': bad[:3], 'category': (bad[0] if bad else '')[:80]}


def classify(harness, w, res):
    return None

"""C20 - lock primitives give the exclusion they document.

The one property where the *schedule* is the solver variable.

* checks/c20_model.py compiles pymap's _AsyncioReadWriteLock from the current
  source (AST) into a guarded-command program and provides a concrete
  interpreter of it with asyncio.Lock/Task/Future semantics.
* this file encodes T tasks x S scheduler steps of that program in z3 (BMC):
  per step a symbolic action (run the head of the FIFO ready queue | start task
  t | open the gate of the task parked in its critical section | cancel task t)
  with symbolic task kinds (reader/writer); obligations: no reachable step where
  a writer is inside with anyone else, no release of an unlocked lock, no
  reachable deadlock (unfinished tasks, none runnable, none parked), with at
  most one cancellation anywhere.
* model validation: random schedules are run on both the automaton and the
  REAL class stepped one asyncio handle at a time; traces must agree.  Every z3
  counterexample is replayed on the real class before it is reported.
* FileLock: the real FileLock.write_lock/read_lock code is executed with the
  pysymex engine (stub file system, symbolic non-decreasing clock, symbolic
  interleaving of two tasks at their sleep points).
"""
from __future__ import annotations

import hashlib
import json
import os
import random
import sys
import time

ID = 'C20'
VERIF = os.path.dirname(os.path.dirname(os.path.abspath(__file__)))

NS, RD, BL, PK, DN, CX = range(6)


LEAK_BOUNDS = {'quick': [(3, -9, 1)], 'thorough': [(4, -13, 1)]}


def build_bmc(model, T, S, K, max_cancel=1, prestart=False):
    import z3
    from z3 import If, And, Or, Not, Int, Bool, IntVal, BoolVal
    from checks import c20_model as M
    reader, writer = model['reader'], model['writer']
    off = len(reader)
    # combined program
    prog = []
    for ins in reader:
        prog.append(ins)
    for ins in writer:
        a = ins.a
        c = ins.c
        if ins.op in (M.JMP, M.JZRET):
            a = ins.a + off
        if ins.op == M.JNCMP:
            c = (ins.c[0], ins.c[1] + off)
        prog.append(M.Ins(ins.op, a, ins.b, c, h=(ins.h + off if ins.h >= 0 else -1), src=ins.src))
    locks = model['locks']
    LI = {L: i for i, L in enumerate(locks)}
    attrs = model['attrs']
    isw = [Bool('is_writer%d' % t) for t in range(T)]

    class St:
        pass

    def init():
        s = St()
        s.pc = [If(isw[t], off, 0) for t in range(T)]
        s.ret = [BoolVal(False)] * T
        s.status = [IntVal(NS)] * T
        s.fut = [IntVal(0)] * T
        s.must = [BoolVal(False)] * T
        s.conce = [BoolVal(False)] * T
        s.incs = [BoolVal(False)] * T
        s.inready = [BoolVal(False)] * T
        s.rtick = [IntVal(0)] * T
        s.wlock = [IntVal(-1)] * T
        s.wtick = [IntVal(0)] * T
        s.attr = [IntVal(model['init'][a]) for a in attrs]
        s.locked = [BoolVal(False)] * len(locks)
        s.nrt = IntVal(1)
        s.nwt = IntVal(1)
        s.bad = BoolVal(False)
        s.badrel = BoolVal(False)
        s.unwind = BoolVal(False)
        s.ncancel = IntVal(0)
        # ghost: what each task has added to each counter attribute and not taken back
        s.net = [IntVal(0)] * (T * max(1, len(attrs)))
        if prestart:
            # every task has been created, in index order, before the first step (saves T 'start' steps; the
            # schedules in which a task is created later are those of the other configuration)
            s.status = [IntVal(RD)] * T
            s.inready = [BoolVal(True)] * T
            s.rtick = [IntVal(t + 1) for t in range(T)]
            s.nrt = IntVal(T + 1)
        return s

    def copy(s):
        n = St()
        for k, v in s.__dict__.items():
            n.__dict__[k] = list(v) if isinstance(v, list) else v
        return n

    def merge(c, a, b):
        n = St()
        for k, v in a.__dict__.items():
            w = b.__dict__[k]
            if isinstance(v, list):
                n.__dict__[k] = [x if x is y else If(c, x, y) for x, y in zip(v, w)]
            else:
                n.__dict__[k] = v if v is w else If(c, v, w)
        return n

    def upd(lst, i, c, v):
        lst[i] = If(c, v, lst[i])

    def first_waiter(s, u, li):
        return And(s.wlock[u] == li, *[Or(s.wlock[v] != li, s.wtick[u] <= s.wtick[v]) for v in range(T) if v != u])

    def make_ready(s, u, c):
        upd(s.inready, u, c, BoolVal(True))
        upd(s.rtick, u, c, s.nrt)
        s.nrt = If(c, s.nrt + 1, s.nrt)

    def wake_first(s, li, c):
        for u in range(T):
            w = And(c, first_waiter(s, u, li), s.fut[u] == 1)
            upd(s.fut, u, w, IntVal(2))
            make_ready(s, u, w)

    def cmpz(op, x, cst):
        return {'==': x == cst, '!=': x != cst, '<': x < cst, '<=': x <= cst, '>': x > cst, '>=': x >= cst}[op]

    def do_raise(s, t, c, h):
        if h < 0:
            upd(s.status, t, c, IntVal(CX))
            return BoolVal(False)       # stops running under c
        upd(s.pc, t, c, IntVal(h))
        return BoolVal(True)

    def is_false(c):
        return z3.is_false(z3.simplify(c))

    entries_wait = [p for p, ins in enumerate(prog) if ins.op in (M.ACQ, M.CS)]

    def macro_step(s, t):
        """task t runs until it blocks / parks / ends.  Path-wise symbolic execution of the program from
        every pc at which a task can be when it is resumed; leaves are merged with their guards."""
        leaves = []
        budget = [0]

        def leaf(guard, st):
            leaves.append((guard, st))

        def run_from(st, pc, guard):
            for _ in range(K * 4):
                budget[0] += 1
                ins = prog[pc]
                op = ins.op
                if op == M.ACQ:
                    li = LI[ins.a]
                    live = Or(*[And(st.wlock[u] == li, st.fut[u] != 3) for u in range(T) if u != t]) \
                        if T > 1 else BoolVal(False)
                    free = And(Not(st.locked[li]), Not(live))
                    gb = And(guard, Not(free))
                    if not is_false(gb):
                        st2 = copy(st)
                        st2.wlock[t] = IntVal(li)
                        st2.wtick[t] = st2.nwt
                        st2.nwt = st2.nwt + 1
                        st2.fut[t] = IntVal(1)
                        st2.status[t] = IntVal(BL)
                        st2.pc[t] = IntVal(pc)
                        leaf(gb, st2)
                    guard = And(guard, free)
                    if is_false(guard):
                        return
                    st.locked[li] = BoolVal(True)
                    pc += 1
                elif op == M.REL:
                    li = LI[ins.a]
                    st.badrel = Or(st.badrel, And(guard, Not(st.locked[li])))
                    st.locked[li] = BoolVal(False)
                    wake_first(st, li, BoolVal(True))
                    pc += 1
                elif op == M.ADD:
                    ai = attrs.index(ins.a)
                    st.attr[ai] = st.attr[ai] + ins.b
                    st.net[t * len(attrs) + ai] = st.net[t * len(attrs) + ai] + ins.b
                    pc += 1
                elif op == M.SETRET:
                    ai = attrs.index(ins.a)
                    st.ret[t] = cmpz(ins.b, st.attr[ai], ins.c)
                    pc += 1
                elif op == M.JMP:
                    pc = ins.a
                elif op in (M.JZRET, M.JNCMP):
                    if op == M.JZRET:
                        c, target = st.ret[t], ins.a
                    else:
                        ai = attrs.index(ins.a)
                        c, target = cmpz(ins.b, st.attr[ai], ins.c[0]), ins.c[1]
                    gf = And(guard, Not(c))
                    if not is_false(gf):
                        run_from(copy(st), target, gf)
                    guard = And(guard, c)
                    if is_false(guard):
                        return
                    pc += 1
                elif op == M.CS:
                    others = [And(st.incs[u], Or(isw[t], isw[u])) for u in range(T) if u != t]
                    if others:
                        st.bad = Or(st.bad, And(guard, Or(*others)))
                    st.incs[t] = BoolVal(True)
                    st.status[t] = IntVal(PK)
                    st.fut[t] = IntVal(1)
                    st.pc[t] = IntVal(pc)
                    leaf(guard, st)
                    return
                elif op == M.RAISE:
                    if ins.h < 0:
                        st.status[t] = IntVal(CX)
                        st.pc[t] = IntVal(pc)
                        leaf(guard, st)
                        return
                    pc = ins.h
                elif op == M.END:
                    st.status[t] = IntVal(DN)
                    st.pc[t] = IntVal(pc)
                    leaf(guard, st)
                    return
            st.unwind = Or(st.unwind, guard)
            leaf(guard, st)

        base = copy(s)
        base.inready[t] = BoolVal(False)
        waiting = Or(s.status[t] == BL, s.status[t] == PK)
        cancelled = Or(s.fut[t] == 3, s.must[t])
        # fresh start
        for p0 in (0, off):
            g = And(s.status[t] == RD, s.pc[t] == p0)
            st = copy(base)
            st.status[t] = IntVal(RD)
            run_from(st, p0, g)
        # resumed from a wait
        for p in entries_wait:
            ins = prog[p]
            for canc in (False, True):
                g = And(waiting, s.pc[t] == p, cancelled if canc else Not(cancelled))
                st = copy(base)
                st.must[t] = BoolVal(False)
                st.fut[t] = IntVal(0)
                st.status[t] = IntVal(RD)
                if ins.op == M.ACQ:
                    li = LI[ins.a]
                    st.wlock[t] = IntVal(-1)
                    if canc:
                        wake_first(st, li, Not(st.locked[li]))
                        if ins.h < 0:
                            st.status[t] = IntVal(CX)
                            leaf(g, st)
                            continue
                        run_from(st, ins.h, g)
                    else:
                        st.locked[li] = BoolVal(True)
                        run_from(st, p + 1, g)
                else:
                    st.incs[t] = BoolVal(False)
                    if canc:
                        if ins.h < 0:
                            st.status[t] = IntVal(CX)
                            leaf(g, st)
                            continue
                        run_from(st, ins.h, g)
                    else:
                        run_from(st, p + 1, g)
        # merge the leaves (guards are mutually exclusive); unreachable combinations keep the old state
        out = copy(s)
        for g, st in leaves:
            out = merge(g, st, out)
        return out

    def is_head(s, t):
        return And(s.inready[t], *[Or(Not(s.inready[u]), s.rtick[t] <= s.rtick[u]) for u in range(T) if u != t])

    solver = z3.Solver()
    s = init()
    acts = []
    bads, badrels, deads, unwinds, leaks = [], [], [], [], []
    for k in range(S):
        kind = Int('kind%d' % k)
        who = Int('who%d' % k)
        acts.append((kind, who))
        solver.add(kind >= 0, kind <= 3, who >= 0, who < T)
        n = copy(s)
        en = []
        for t in range(T):
            runc = And(kind == 0, who == t, is_head(s, t))
            startc = And(kind == 1, who == t, s.status[t] == NS,
                         *([s.status[t - 1] != NS] if t > 0 else []))      # symmetry: start in index order
            openc = And(kind == 2, who == t, s.status[t] == PK, s.fut[t] == 1)
            cancc = And(kind == 3, who == t, Or(s.status[t] == BL, s.status[t] == PK), Not(s.conce[t]),
                        s.ncancel < max_cancel)
            en += [runc, startc, openc, cancc]
            n2 = macro_step(s, t)
            n = merge(runc, n2, n)
            n3 = copy(s)
            n3.status[t] = IntVal(RD)
            make_ready(n3, t, BoolVal(True))
            n = merge(startc, n3, n)
            n4 = copy(s)
            n4.fut[t] = IntVal(2)
            make_ready(n4, t, BoolVal(True))
            n = merge(openc, n4, n)
            n5 = copy(s)
            n5.conce[t] = BoolVal(True)
            n5.ncancel = s.ncancel + 1
            pend = s.fut[t] == 1
            n5.fut[t] = If(pend, IntVal(3), s.fut[t])
            make_ready(n5, t, pend)
            n5.must[t] = If(pend, s.must[t], BoolVal(True))
            n = merge(cancc, n5, n)
        solver.add(Or(*en))
        # cut: fresh state variables per step
        f = St()
        for key, v in n.__dict__.items():
            if isinstance(v, list):
                nv = []
                for i, e in enumerate(v):
                    x = z3.Const('%s_%d_%d' % (key, k, i), e.sort())
                    solver.add(x == e)
                    nv.append(x)
                f.__dict__[key] = nv
            else:
                x = z3.Const('%s_%d' % (key, k), v.sort())
                solver.add(x == v)
                f.__dict__[key] = x
        s = f
        bads.append(s.bad)
        badrels.append(s.badrel)
        unwinds.append(s.unwind)
        started_unfinished = [And(s.status[t] != NS, s.status[t] != DN, s.status[t] != CX) for t in range(T)]
        dead = And(Or(*started_unfinished), Not(Or(*s.inready)),
                   *[Or(Not(started_unfinished[t]), s.status[t] == BL) for t in range(T)])
        deads.append(dead)
        # candidate for "unusable afterwards": a task has ended (normally or by cancellation) and is still counted
        leaks.append(Or(*[And(Or(s.status[t] == DN, s.status[t] == CX), s.net[t * len(attrs) + ai] != 0)
                          for t in range(T) for ai in range(len(attrs))]) if attrs else BoolVal(False))
    return solver, acts, isw, {'exclusion': bads, 'release_unlocked': badrels, 'deadlock': deads, 'unwinding': unwinds,
                               'leak': leaks}


def decode(model_z3, acts, isw, upto):
    names = ['run', 'start', 'open', 'cancel']
    kinds = ['w' if bool(model_z3.eval(b, model_completion=True)) else 'r' for b in isw]
    sched = []
    for k, w in acts[:upto]:
        kk = model_z3.eval(k, model_completion=True).as_long()
        ww = model_z3.eval(w, model_completion=True).as_long()
        sched.append(('run',) if kk == 0 else (names[kk], ww))
    return kinds, sched


def replay_real(kinds, sched):
    """run the schedule on the REAL pymap class; returns (violation text|None, trace)"""
    from checks import c20_model as M
    from pymap.concurrent import _AsyncioReadWriteLock
    r = M.Real(kinds, _AsyncioReadWriteLock)
    err = None
    try:
        for a in sched:
            try:
                r.act(a)
            except RuntimeError as exc:
                err = 'RuntimeError %s' % exc
                break
            if r.bad:
                err = r.bad
                break
        if err is None:
            # deadlock: nothing runnable, nothing parked, yet unfinished tasks
            pending = [t for t, task in enumerate(r.tasks) if task is not None and not task.done()]
            parked = [t for t in pending if r.gates[t] is not None and not r.gates[t].done() and r.inside[t]]
            if pending and not r.loop._ready and not parked:
                err = 'deadlock: tasks %r wait forever' % pending
            for task in r.tasks:
                if task is not None and task.done() and not task.cancelled() and task.exception() is not None:
                    err = 'task raised %r' % task.exception()
    finally:
        trace = list(r.trace)
        r.close()
    return err, trace


def probe_usable(kinds, sched):
    """the 'leak' candidates are decided on the REAL class: run the schedule, let every remaining task finish
    (open every parked critical section, run whatever is ready), then a fresh writer and a fresh reader must both get
    in.  returns (violation text|None, trace)"""
    from checks import c20_model as M
    from pymap.concurrent import _AsyncioReadWriteLock
    T = len(kinds)
    r = M.Real(list(kinds) + ['w', 'r'], _AsyncioReadWriteLock)
    err = None
    try:
        started = set()
        for a in sched:
            if a[0] == 'start':
                started.add(a[1])
            r.act(a)
            if r.bad:
                return r.bad, list(r.trace)

        def settle():
            for _ in range(200):
                r.drain()
                parked = [t for t in range(len(r.kinds)) if r.gates[t] is not None and not r.gates[t].done() and r.inside[t]]
                if not parked:
                    return
                for t in parked:
                    r.act(('open', t))
        for t in range(T):
            if t not in started and r.tasks[t] is None and any(a == ('start', t) for a in sched):
                pass
        settle()
        stuck = [t for t in range(T) if r.tasks[t] is not None and not r.tasks[t].done()]
        if stuck:
            err = 'after every holder released, tasks %r still wait' % stuck
        else:
            for probe in (T, T + 1):
                r.act(('start', probe))
                settle()
                if ('enter', probe) not in r.trace:
                    err = ('the lock is unusable afterwards: every task has finished, yet a new %s never gets in '
                           '(reader count %r, write mutex locked: %r)'
                           % ('writer' if probe == T else 'reader', getattr(r.lock, '_counter', None),
                              getattr(getattr(r.lock, '_write_lock', None), 'locked', lambda: None)()))
                    break
    finally:
        trace = list(r.trace)
        r.close()
    return err, trace


def cosimulate(model, n, seed, T=3, steps=30):
    from checks import c20_model as M
    from pymap.concurrent import _AsyncioReadWriteLock
    rnd = random.Random(seed)
    mism = 0
    viol = 0
    sample = None
    for i in range(n):
        kinds = [rnd.choice('rw') for _ in range(T)]
        c = M.Concrete(model, kinds)
        r = M.Real(kinds, _AsyncioReadWriteLock)
        acts = []
        try:
            for _ in range(steps):
                en = c.enabled()
                if not en:
                    break
                a = rnd.choice(en)
                acts.append(a)
                c.act(a)
                r.act(a)
                if c.trace != r.trace:
                    mism += 1
                    sample = {'kinds': kinds, 'schedule': acts, 'model': c.trace, 'real': r.trace}
                    break
                if c.bad or r.bad:
                    # a violation on both sides ends the comparison (what happens after it is undefined)
                    if bool(c.bad) != bool(r.bad):
                        mism += 1
                        sample = {'kinds': kinds, 'schedule': acts, 'model_bad': c.bad, 'real_bad': r.bad}
                    break
            if c.bad or r.bad:
                viol += 1
        finally:
            r.close()
    return mism, viol, sample


def main(tier):
    sys.path.insert(0, os.environ.get('VERIF_REPO') or '/repo')
    t0 = time.time()
    import z3
    from checks import c20_model as M
    seed = int(os.environ.get('VERIF_SEED', '0') or 0)
    rc = 0
    lines = []
    try:
        model = M.compile_rwlock()
    except M.Unsupported as exc:
        print('HARNESS-ERROR/INCONCLUSIVE: cannot compile _AsyncioReadWriteLock: %s' % exc)
        return 2
    src_hash = hashlib.sha256(model['source'].encode()).hexdigest()[:16]
    # ---- model validation against the real class
    nco = 1500 if tier == 'quick' else 6000
    mism, viol_random, sample = cosimulate(model, nco, seed)
    if mism:
        print('HARNESS-ERROR/INCONCLUSIVE: automaton and real class disagree on %d random schedules, e.g. %s'
              % (mism, json.dumps(sample)[:400]))
        rc = 2
    bounds = [(2, 10, 1), (3, 10, 1), (3, 12, 0)] if tier == 'quick' else [(2, 14, 1), (3, 13, 1), (3, 15, 0), (4, 11, 1)]
    # S < 0: every task created before the first step (|S| steps follow); only the 'leak' obligation is asked there
    leak_bounds = LEAK_BOUNDS[tier]
    known, fixed = _known()
    results = []
    violations = []
    known_hits = {}
    queries = 0
    solver_s = 0.0
    K = 14
    import multiprocessing as mp
    jobs = [(T, S, C, name) for T, S, C in bounds for name in ('unwinding', 'exclusion', 'release_unlocked', 'deadlock', 'leak')]
    jobs += [(T, S, C, name) for T, S, C in leak_bounds for name in ('unwinding', 'leak')]
    with mp.get_context('fork').Pool(min(16, len(jobs))) as pool:
        outs = pool.map(_bmc_job, [(model, j, K) for j in jobs])
    byb = {}
    for (T, S, C, name), o in zip(jobs, outs):
        res = byb.setdefault((T, S, C), {'T': T, 'S': S, 'max_cancel': C})
        res[name] = o['result']
        res[name + '_s'] = o['solve_s']
        res['build_s'] = o['build_s']
        queries += 1
        solver_s += o['solve_s']
        if o['result'] == 'unknown':
            print('HARNESS-ERROR/INCONCLUSIVE: solver returned unknown for %s at T=%d S=%d' % (name, T, S))
            rc = rc or 2
        if o['result'] == 'sat':
            if name == 'unwinding':
                print('HARNESS-ERROR/INCONCLUSIVE: unwinding bound K=%d too small (T=%d S=%d)' % (K, T, S))
                rc = rc or 2
                continue
            kinds, sched = o['kinds'], [tuple(a) for a in o['schedule']]
            if S < 0:
                sched = [('start', t) for t in range(T)] + sched
            if name == 'leak':
                err, trace = probe_usable(kinds, sched)
                if err is None:
                    # the ghost counter is only a pointer to where to look: the real lock is usable after this
                    # schedule, so this is not a violation (and no reason to call the run inconclusive)
                    res[name] = 'sat-but-usable'
                    continue
            else:
                err, trace = replay_real(kinds, sched)
            wit = {'obligation': name, 'kinds': kinds, 'schedule': [list(a) for a in sched], 'T': T, 'S': S,
                   'real_trace': [list(x) for x in trace]}
            if err is None:
                print('HARNESS-ERROR/INCONCLUSIVE: z3 counterexample for %s does not reproduce on the real '
                      'class: %s' % (name, json.dumps(wit)[:400]))
                rc = rc or 2
            else:
                wit['real_outcome'] = err
                kid = classify(wit)
                ent = next((e for e in known if e['id'] == kid), None)
                if ent:
                    known_hits.setdefault(kid, {'entry': ent, 'count': 0, 'example': wit})['count'] += 1
                else:
                    violations.append(wit)
    results = list(byb.values())
    if os.environ.get('VERIF_VERBOSE'):
        for res in results:
            print('  BMC', res, flush=True)
    # ---- FileLock by symbolic execution (pysymex)
    fl = filelock_check(tier)
    if fl['errors']:
        for e in fl['errors'][:5]:
            print('HARNESS-ERROR/INCONCLUSIVE: FileLock: %s' % e)
        rc = rc or 2
    for w in fl['violations']:
        kid = classify(w)
        ent = next((e for e in known if e['id'] == kid), None)
        if ent:
            known_hits.setdefault(kid, {'entry': ent, 'count': 0, 'example': w})['count'] += 1
        else:
            violations.append(w)
    for kid, hit in known_hits.items():
        print('KNOWN-FINDING: property=C20 %s [%s; e.g. %s]' % (hit['entry']['what'], kid, json.dumps(hit['example'])[:200]))
    os.makedirs(os.path.join(VERIF, 'replays'), exist_ok=True)
    for v in violations[:10]:
        hsh = hashlib.sha256(json.dumps(v, sort_keys=True, default=str).encode()).hexdigest()[:12]
        path = os.path.join(VERIF, 'replays', 'C20-%s.json' % hsh)
        with open(path, 'w') as f:
            json.dump({'property': 'C20', 'harness': v.get('obligation', 'filelock'), 'witness': v}, f, indent=1, default=str)
        print('VIOLATION property=C20 replay=%s' % path)
        print('  %s' % json.dumps(v, default=str)[:400])
    if violations:
        rc = 1
    wall = time.time() - t0
    ev = {
        'property_id': 'C20', 'tier': tier, 'seed': seed, 'level': 'model_checking',
        'coverage': {
            'states': sum(r['T'] * abs(r['S']) for r in results) + fl['paths'],
            'transitions': sum(abs(r['S']) for r in results) * 4 + fl['queries'],
            'traces_validated_against_impl': nco + len(violations) + sum(h['count'] for h in known_hits.values()) + fl['validated'],
            'samples': [{'bmc_bound': r} for r in results] + fl['samples'][:3],
            'obligations': queries + fl['paths'], 'discharged': sum(1 for r in results for n in ('exclusion', 'release_unlocked', 'deadlock', 'unwinding', 'leak') if r.get(n) == 'unsat') + fl['proved'],
            'exhaustive': rc == 0,
            'explanation': 'z3 BMC over a guarded-command automaton compiled from the current source of '
                           '_AsyncioReadWriteLock (sha256 %s); the schedule and the task kinds are solver variables; '
                           'FileLock by pysymex symbolic execution of the real code' % src_hash,
            'functions_encoded': [{'function': 'pymap.concurrent:_AsyncioReadWriteLock (whole class, compiled from AST)', 'sha256': src_hash,
                                   'reader_instructions': len(model['reader']), 'writer_instructions': len(model['writer'])},
                                  {'function': 'pymap.concurrent:FileLock.write_lock/read_lock/_check_lock/_try_lock/_unlock', 'engine': 'pysymex'},
                                  {'function': 'pymap.backend.maildir.io:_FileWriteWith.__aenter__/__aexit__, FileReadable.file_read, '
                                               'pymap.backend.maildir.uidlist:UidList.open/read/_read_header/_read_line', 'engine': 'pysymex'}],
            'bounds': results, 'unwinding_K': K,
            'queries_discharged': queries, 'solver_time_s': round(solver_s, 1),
            'cosimulation': {'random_schedules': nco, 'trace_mismatches': mism, 'violating_on_both': viol_random},
            'filelock': {k: fl[k] for k in ('paths', 'proved', 'queries', 'bounds')},
            'known_findings_hit': {k: v['count'] for k, v in known_hits.items()},
            'checker_cmd': './check C20 --tier %s' % tier,
            'trusted_base': ['z3', 'the asyncio.Lock/Task/Future model in c20_model.Concrete and its z3 twin (validated by '
                             'co-simulation with the real class on random schedules and by replay of every counterexample)'],
        },
        'assumptions': ['T tasks, each one acquisition with one suspension inside the critical section; S scheduler steps '
                        '(prefixes of executions, not necessarily whole runs); at most one cancellation',
                        'cooperative asyncio scheduling: FIFO ready queue, a task step is atomic between suspension points',
                        'FileLock: critical sections shorter than `expiration` (its documented contract); 2 tasks',
                        'with_write: uidlist header / record text up to the stated number of symbolic characters'],
        'wall_s': round(wall, 2), 'violations': len(violations),
    }
    os.makedirs(os.path.join(VERIF, 'evidence'), exist_ok=True)
    with open(os.path.join(VERIF, 'evidence', 'C20.json'), 'w') as f:
        json.dump(ev, f, indent=1, default=str)
    print('C20 tier=%s bmc_bounds=%s queries=%d solver=%.1fs cosim=%d mismatches=%d filelock_paths=%d known=%d violations=%d '
          'wall=%.1fs exit=%d' % (tier, [(r['T'], r['S'], r['max_cancel']) for r in results], queries, solver_s, nco, mism,
                                  fl['paths'], sum(h['count'] for h in known_hits.values()), len(violations), wall, rc))
    return rc


def _bmc_job(arg):
    import z3
    model, (T, S, C, name), K = arg
    ts = time.time()
    prestart = S < 0
    S = abs(S)
    solver, acts, isw, obl = build_bmc(model, T, S, K, C, prestart)
    solver.set('timeout', 3000000)
    build_s = round(time.time() - ts, 1)
    tq = time.time()
    solver.add(z3.Or(*obl[name]))
    r = str(solver.check())
    out = {'result': r, 'build_s': build_s, 'solve_s': round(time.time() - tq, 1)}
    if r == 'sat':
        m = solver.model()
        upto = next(i for i, b in enumerate(obl[name]) if z3.is_true(m.eval(b, model_completion=True))) + 1
        kinds, sched = decode(m, acts, isw, upto)
        out['kinds'] = kinds
        out['schedule'] = [list(a) for a in sched]
    return out


def _known():
    path = os.path.join(VERIF, 'known_findings.json')
    data = json.load(open(path)) if os.path.exists(path) else {}
    return ([e for e in data.get('known', []) if e['property'] == 'C20'],
            [e for e in data.get('fixed', []) if e['property'] == 'C20'])


def classify(w):
    return None


# ---------------------------------------------------------------- FileLock (pysymex)
def filelock_check(tier):
    """run in a subprocess so that the instrumented loader does not mix with the real pymap used above"""
    import subprocess
    env = dict(os.environ)
    env['PYTHONPATH'] = '/verif/.deps:%s:%s' % (VERIF, os.environ.get('VERIF_REPO') or '/repo')
    p = subprocess.run([sys.executable, '-m', 'checks.c20_filelock', tier], cwd=VERIF, env=env,
                       capture_output=True, text=True, timeout=3000)
    try:
        return json.loads(p.stdout.strip().splitlines()[-1])
    except Exception:   # noqa: BLE001
        return {'errors': ['filelock subprocess failed: %s' % (p.stderr[-600:] or p.stdout[-300:])], 'violations': [],
                'paths': 0, 'proved': 0, 'queries': 0, 'validated': 0, 'samples': [], 'bounds': {}}


def replay(harness, w):
    sys.path.insert(0, os.environ.get('VERIF_REPO') or '/repo')
    if w.get('obligation') in ('exclusion', 'release_unlocked', 'deadlock'):
        err, trace = replay_real(w['kinds'], [tuple(a) for a in w['schedule']])
        return {'violates': err is not None, 'detail': err, 'trace': trace}
    if w.get('obligation') == 'leak':
        err, trace = probe_usable(w['kinds'], [tuple(a) for a in w['schedule']])
        return {'violates': err is not None, 'detail': err, 'trace': trace}
    from checks import c20_filelock
    return c20_filelock.replay(w)

"""C20 machinery, part 2: the real FileLock executed by the pysymex engine.

Two tasks, each with its own FileLock object on the same path (as two
sessions / processes have), run `async with lock.write_lock(): <one
suspension>`; optionally the critical section raises.  The file system is an
in-memory stub (exists + mtime), the clock a symbolic non-decreasing integer
(total elapsed time below `expiration`: the documented contract), the
interleaving at every suspension (sleep, critical section) is a solver-driven
fork.  Oracle: never two writers inside; after both are done the lock file is
absent, also when a critical section raised.
"""
from __future__ import annotations

import json
import sys


class FS:
    def __init__(self, clock):
        self.exists = False
        self.mtime = 0
        self.clock = clock

    def stat(self, p):
        if not self.exists:
            raise FileNotFoundError(p)

        class S:
            st_mtime = self.mtime
        return S()

    def unlink(self, p):
        if not self.exists:
            raise FileNotFoundError(p)
        self.exists = False

    remove = unlink

    def path_exists(self, p):
        return self.exists

    def open(self, p, mode='r', *a, **k):
        if 'x' in mode:
            if self.exists:
                raise FileExistsError(p)
            self.exists = True
            self.mtime = self.clock()
            import io
            return io.StringIO()
        raise OSError('stub: only exclusive create is modelled')


class _Sleep:
    def __init__(self, d):
        self.d = d

    def __await__(self):
        yield ('sleep', self.d)


class _Park:
    def __await__(self):
        yield ('cs',)


def scenario(FileLock, install, choose, advance, raises, nretry=2):
    """choose(n) -> index of the task to run next; advance() -> new clock value; raises[i]: task i raises in its CS.
    returns error|None"""
    now = [0]

    def clock():
        return now[0]
    fs = FS(clock)
    install(fs, clock, lambda d: _Sleep(d))
    try:
        inside = [False, False]
        log = []

        async def body(i):
            lock = FileLock('/maildir/x.lock', expiration=600, read_retry_delay=(1,) * nretry,
                            write_retry_delay=(1,) * nretry)
            try:
                async with lock.write_lock():
                    if inside[1 - i]:
                        log.append('two writers inside')
                    inside[i] = True
                    try:
                        await _Park()
                        if raises[i]:
                            raise ValueError('boom')
                    finally:
                        inside[i] = False
            except TimeoutError:
                log.append('timeout %d' % i)
            except ValueError:
                pass
        coros = [body(0), body(1)]
        alive = [True, True]
        for _ in range(40):
            idx = [i for i in (0, 1) if alive[i]]
            if not idx:
                break
            i = idx[choose(len(idx))] if len(idx) > 1 else idx[0]
            now[0] = advance()
            try:
                coros[i].send(None)
            except StopIteration:
                alive[i] = False
            # a holder keeps its lock file for as long as it is inside (somebody giving up must not remove it)
            if (inside[0] or inside[1]) and not fs.exists:
                return 'a task is inside its critical section but the lock file is gone'
        else:
            return 'tasks did not finish'
        if 'two writers inside' in log:
            return 'two writers held the lock file at once'
        if fs.exists:
            return 'the lock file is left behind after both tasks are done'
        return None
    finally:
        install(None, None, None)


def ww_scenario(UidList, install, kind, text, raises):
    """`async with UidList.with_write(path)` on a dovecot-uidlist whose header (kind 'header') or first record
    line (kind 'record') is `text`, or that does not exist (kind 'absent'); the body raises if `raises`.
    Whatever happens the lock file must be gone afterwards.  returns error|None"""
    from checks.c04_maildir import MemFS
    fs = MemFS(lambda: 0)
    install(fs, lambda: 0, lambda d: _Sleep(d))
    try:
        path = '/m/D'
        if kind == 'header':
            fs.files[UidList.get_file(path)] = [text]
        elif kind == 'record':
            fs.files[UidList.get_file(path)] = ['3 V7 N5 G%s\r\n' % ('0' * 32), text]
        out = []
        held_at_exit = []

        async def body():
            try:
                async with UidList.with_write(path) as ul:
                    if raises:
                        raise KeyError('boom')
                    ul.next_uid += 1
                    ul.touch()
                out.append('ok')
            except Exception as exc:      # noqa: BLE001 - parse errors, the body's own error
                out.append(type(exc).__name__)
                # observed at the moment the statement is left, while the exception is still alive (afterwards
                # the garbage collector may finalise an abandoned lock generator and hide a missing release)
                held_at_exit.append(UidList.get_lock(path) in fs.files)
        co = body()
        for _ in range(40):
            try:
                co.send(None)
            except StopIteration:
                break
        else:
            return 'with_write did not finish'
        if UidList.get_lock(path) in fs.files or any(held_at_exit):
            return "with_write ended with %s and the lock file is still there" % out[0]
        return None
    finally:
        install(None, None, None)


def main(tier):
    from pysymex import loader
    loader.install()
    from pysymex import Engine, Outcome
    from pysymex.core import Unsupported
    import types
    import time as _time_mod
    import asyncio as _asyncio_mod
    # facades for `time` and `asyncio.sleep` inside pymap.concurrent
    hooks = {'clock': None, 'sleep': None}
    tf = types.ModuleType('time')
    tf.__dict__.update(vars(_time_mod))
    tf.time = lambda: hooks['clock']() if hooks['clock'] else _time_mod.time()
    af = types.ModuleType('asyncio')
    af.__dict__.update(vars(_asyncio_mod))
    af.sleep = lambda d, *a: hooks['sleep'](d) if hooks['sleep'] else _asyncio_mod.sleep(d, *a)
    real_import = loader.SYM_BUILTINS['__import__']

    def imp(name, globals=None, locals=None, fromlist=(), level=0):
        if level == 0 and name == 'time':
            return tf
        if level == 0 and name == 'asyncio' and not fromlist:
            return af
        return real_import(name, globals, locals, fromlist, level)
    loader.SYM_BUILTINS['__import__'] = imp
    from pymap.concurrent import FileLock

    def install(fs, clock, sleep):
        loader.FS_HOOK[0] = fs
        hooks['clock'] = clock
        hooks['sleep'] = sleep
    out = {'errors': [], 'violations': [], 'paths': 0, 'proved': 0, 'queries': 0, 'validated': 0, 'samples': [],
           'bounds': {'tasks': 2, 'retries': 2 if tier == 'quick' else 3, 'elapsed': '< expiration'}}
    nretry = out['bounds']['retries']

    def fn(eng):
        picks = []
        clockvals = []
        raises = [eng.flip('raise0'), eng.flip('raise1')]
        total = [0]

        def choose(n):
            v = eng.choose('sched%d' % len(picks), n)
            picks.append(v)
            return v

        def advance():
            d = eng.fresh_int('dt%d' % len(clockvals), 0, 599)
            total[0] = total[0] + d
            eng.add((total[0] <= 599).t)
            clockvals.append(total[0])
            return total[0]
        err = scenario(FileLock, install, choose, advance, raises, nretry)
        wit = lambda m: {'obligation': 'filelock', 'picks': picks, 'raises': raises,  # noqa: E731
                         'clock': [c.eval(m) if hasattr(c, 'eval') else c for c in clockvals], 'nretry': nretry}
        return Outcome(err is None, witness=wit, info=err)
    eng = Engine()
    eng.sample_every = 25
    try:
        for rec in eng.explore(fn, max_paths=200000):
            if rec['status'] == 'cex':
                r = replay(rec['witness'])
                if r['violates']:
                    w = dict(rec['witness'])
                    w['real_outcome'] = r['detail']
                    out['violations'].append(w)
                else:
                    out['errors'].append('counterexample does not reproduce: %s' % json.dumps(rec['witness'])[:200])
                out['validated'] += 1
            elif rec['status'] == 'proved':
                out['proved'] += 1
                if rec.get('sample') is not None:
                    r = replay(rec['sample'])
                    if r['violates']:
                        out['errors'].append('proved path violates concretely: %s' % json.dumps(rec['sample'])[:200])
                    out['validated'] += 1
                    if len(out['samples']) < 3:
                        out['samples'].append({'filelock_schedule': rec['sample']})
    except Unsupported as exc:
        out['errors'].append('Unsupported: %s' % exc)
    st = eng.stats()
    out['paths'] = st['paths']
    out['queries'] = st['feasibility_queries'] + st['proof_unsat'] + st['proof_sat']
    if eng.pending:
        out['errors'].append('path tree not exhausted')
    # ---- part 2b: the lock taken by FileWriteable.with_write (maildir control files) is released on every exit
    from pymap.backend.maildir.uidlist import UidList
    from pysymex import fresh_str

    def install2(fs, clock, sleep):
        loader.FS_HOOK[0] = fs
        loader.ENV_HOOK['clock'] = clock
        loader.ENV_HOOK['sleep'] = sleep
    nmax = 5 if tier == 'quick' else 8
    out['bounds']['with_write_text_chars'] = nmax
    for kind in ('absent', 'header', 'record'):
        for n in ([0] if kind == 'absent' else range(0, nmax + 1)):
            def fn2(eng, kind=kind, n=n):
                text = fresh_str(eng, 't', n, hi=0x7f) if kind != 'absent' else ''
                raises = eng.flip('body_raises')
                err = ww_scenario(UidList, install2, kind, text, raises)
                wit = lambda m: {'obligation': 'with_write', 'kind': kind, 'raises': raises,  # noqa: E731
                                 'text': ''.join(map(chr, text.concrete(m))) if kind != 'absent' else ''}
                return Outcome(err is None, witness=wit, info=err)
            eng2 = Engine()
            eng2.sample_every = 25
            try:
                for rec in eng2.explore(fn2, max_paths=200000):
                    if rec['status'] == 'cex':
                        r = replay(rec['witness'])
                        if r['violates']:
                            w = dict(rec['witness'])
                            w['real_outcome'] = r['detail']
                            out['violations'].append(w)
                        else:
                            out['errors'].append('counterexample does not reproduce: %s' % json.dumps(rec['witness'])[:200])
                        out['validated'] += 1
                    elif rec['status'] == 'proved':
                        out['proved'] += 1
                        if rec.get('sample') is not None:
                            r = replay(rec['sample'])
                            if r['violates']:
                                out['errors'].append('proved path violates concretely: %s' % json.dumps(rec['sample'])[:200])
                            out['validated'] += 1
                    else:
                        out['errors'].append('with_write %s[%d]: %s %s' % (kind, n, rec['status'], str(rec.get('info'))[:200]))
            except Unsupported as exc:
                out['errors'].append('Unsupported: %s' % exc)
            st2 = eng2.stats()
            out['paths'] += st2['paths']
            out['queries'] += st2['feasibility_queries'] + st2['proof_unsat'] + st2['proof_sat']
            if eng2.pending:
                out['errors'].append('with_write path tree not exhausted')
    print(json.dumps(out, default=str))
    return 0


def replay_ww(w):
    import types
    import pymap.concurrent as C
    import pymap.backend.maildir.io as IO
    from pymap.backend.maildir.uidlist import UidList
    saved = (C.os, C.time, C.asyncio, IO.os, IO.NamedTemporaryFile)

    def install(fs, clock, sleep):
        if fs is None:
            C.os, C.time, C.asyncio, IO.os, IO.NamedTemporaryFile = saved
            C.__dict__.pop('open', None)
            IO.__dict__.pop('open', None)
            return
        import os as _os
        pathns = types.SimpleNamespace(**{k: getattr(_os.path, k) for k in ('join', 'split', 'basename', 'dirname')})
        pathns.exists = fs.path_exists
        o = types.SimpleNamespace(stat=fs.stat, unlink=fs.unlink, remove=fs.remove, rename=fs.rename, path=pathns)
        C.os = o
        IO.os = o
        C.time = types.SimpleNamespace(time=clock)
        a = types.SimpleNamespace(**{k: v for k, v in vars(saved[2]).items() if not k.startswith('__')})
        a.sleep = sleep
        C.asyncio = a
        C.open = fs.open
        IO.open = fs.open
        IO.NamedTemporaryFile = fs.named_temp
    err = ww_scenario(UidList, install, w['kind'], w['text'], w['raises'])
    return {'violates': err is not None, 'detail': err}


def replay(w):
    """concrete run of the same schedule on the uninstrumented FileLock (module attributes patched)"""
    if w.get('obligation') == 'with_write':
        return replay_ww(w)
    import pymap.concurrent as C
    import builtins
    FileLock = C.FileLock
    saved = (C.os, C.time, C.asyncio, getattr(C, 'open', None))
    picks = list(w['picks'])
    clockq = list(w['clock'])

    def install(fs, clock, sleep):
        if fs is None:
            C.os, C.time, C.asyncio = saved[0], saved[1], saved[2]
            C.__dict__.pop('open', None)
            return
        import types
        import os as _os
        import os.path as _osp
        o = types.SimpleNamespace(stat=fs.stat, unlink=fs.unlink, path=types.SimpleNamespace(exists=fs.path_exists))
        C.os = o
        C.time = types.SimpleNamespace(time=clock)
        a = types.SimpleNamespace(**{k: v for k, v in vars(saved[2]).items() if not k.startswith('__')})
        a.sleep = sleep
        C.asyncio = a
        C.open = fs.open
    err = scenario(FileLock, install, lambda n: picks.pop(0) if picks else 0,
                   lambda: clockq.pop(0) if clockq else 0, w['raises'], w.get('nretry', 2))
    return {'violates': err is not None, 'detail': err}


if __name__ == '__main__':
    sys.exit(main(sys.argv[1] if len(sys.argv) > 1 else 'quick'))

"""C20 machinery, part 1: compile pymap's _AsyncioReadWriteLock from its
*current source* into a small guarded-command program, interpret it concretely
(for validation against the real class under a deterministic asyncio driver)
and expose it to the z3 BMC (c20.py).

Supported statement subset (anything else -> Unsupported, the check is then
inconclusive, never a pass):  async with self.L: ... / await self.L.acquire()
/ self.L.release() / self.A += k / self.A -= k / return [self.A <op> c] /
if (await self.m() | self.A <op> c): ... [else: ...] / await self.m() /
try..finally / try..except BaseException (with bare raise) / yield / raise /
pass.
"""
from __future__ import annotations

import ast


class Unsupported(Exception):
    pass


# opcodes
ACQ, REL, ADD, SETRET, JMP, JZRET, JNCMP, CS, RAISE, END = range(10)
OPNAMES = ['ACQ', 'REL', 'ADD', 'SETRET', 'JMP', 'JZRET', 'JNCMP', 'CS', 'RAISE', 'END']
CMPS = {ast.Eq: '==', ast.NotEq: '!=', ast.Lt: '<', ast.LtE: '<=', ast.Gt: '>', ast.GtE: '>='}


class Ins:
    __slots__ = ('op', 'a', 'b', 'c', 'h', 'src')

    def __init__(self, op, a=None, b=None, c=None, h=-1, src=0):
        self.op, self.a, self.b, self.c, self.h, self.src = op, a, b, c, h, src

    def __repr__(self):
        return '%-6s %s %s %s h=%s' % (OPNAMES[self.op], self.a if self.a is not None else '',
                                       self.b if self.b is not None else '', self.c if self.c is not None else '', self.h)


class Compiler:
    def __init__(self, classdef):
        self.methods = {}
        for node in classdef.body:
            if isinstance(node, (ast.AsyncFunctionDef, ast.FunctionDef)):
                self.methods[node.name] = node
        self.locks = set()
        self.attrs = set()
        init = self.methods.get('__init__')
        if init is None:
            raise Unsupported('no __init__')
        self.init = {}
        for st in init.body:
            if isinstance(st, ast.Assign) and len(st.targets) == 1 and self._selfattr(st.targets[0]):
                name = st.targets[0].attr
                if isinstance(st.value, ast.Call):
                    self.locks.add(name)
                elif isinstance(st.value, ast.Constant) and isinstance(st.value.value, int):
                    self.attrs.add(name)
                    self.init[name] = st.value.value
                else:
                    raise Unsupported('__init__ assignment %s' % ast.unparse(st))
            elif isinstance(st, ast.Expr):
                continue          # super().__init__()
            else:
                raise Unsupported('__init__ statement %s' % ast.unparse(st))
        self.code = []

    @staticmethod
    def _selfattr(n):
        return isinstance(n, ast.Attribute) and isinstance(n.value, ast.Name) and n.value.id == 'self'

    def emit(self, *a, **k):
        self.code.append(Ins(*a, **k))
        return len(self.code) - 1

    # ---- expressions -----------------------------------------------------
    def _cmp(self, e):
        if isinstance(e, ast.Compare) and len(e.ops) == 1 and self._selfattr(e.left) \
                and isinstance(e.comparators[0], ast.Constant) and type(e.ops[0]) in CMPS:
            if e.left.attr not in self.attrs:
                raise Unsupported('unknown attribute %s' % e.left.attr)
            return e.left.attr, CMPS[type(e.ops[0])], e.comparators[0].value
        return None

    def _call(self, e):
        """await self.m() -> ('method', m); await self.L.acquire() -> ('acq', L); self.L.release() -> ('rel', L)"""
        if isinstance(e, ast.Await):
            e = e.value
            awaited = True
        else:
            awaited = False
        if not isinstance(e, ast.Call) or e.args or e.keywords:
            return None
        f = e.func
        if self._selfattr(f) and f.attr in self.methods:
            return ('method', f.attr)
        if isinstance(f, ast.Attribute) and self._selfattr(f.value) and f.value.attr in self.locks:
            if f.attr == 'acquire' and awaited:
                return ('acq', f.value.attr)
            if f.attr == 'release' and not awaited:
                return ('rel', f.value.attr)
        return None

    # ---- statements --------------------------------------------------------
    def block(self, stmts, h, cleanups, ret_fix):
        for st in stmts:
            self.stmt(st, h, cleanups, ret_fix)

    def stmt(self, st, h, cleanups, ret_fix):
        ln = getattr(st, 'lineno', 0)
        if isinstance(st, ast.Pass):
            return
        if isinstance(st, ast.Expr) and isinstance(st.value, ast.Constant):
            return   # docstring
        if isinstance(st, ast.Expr) and isinstance(st.value, ast.Yield):
            self.emit(CS, h=h, src=ln)
            return
        if isinstance(st, ast.Expr):
            c = self._call(st.value)
            if c is None:
                raise Unsupported(ast.unparse(st))
            self.call(c, h, ln)
            return
        if isinstance(st, ast.AugAssign) and self._selfattr(st.target) and isinstance(st.value, ast.Constant) \
                and isinstance(st.op, (ast.Add, ast.Sub)) and st.target.attr in self.attrs:
            k = st.value.value if isinstance(st.op, ast.Add) else -st.value.value
            self.emit(ADD, st.target.attr, k, h=h, src=ln)
            return
        if isinstance(st, ast.Return):
            if st.value is not None:
                c = self._cmp(st.value)
                if c is None:
                    raise Unsupported(ast.unparse(st))
                self.emit(SETRET, *c, h=h, src=ln)
            # run the normal-exit cleanups of every enclosing construct of this function
            for cl in reversed(cleanups):
                cl(h)
            ret_fix.append(self.emit(JMP, None, h=h, src=ln))
            return
        if isinstance(st, ast.Raise) and st.exc is None:
            self.emit(RAISE, h=h, src=ln)
            return
        if isinstance(st, ast.If):
            c = self._cmp(st.test)
            if c is not None:
                j = self.emit(JNCMP, c[0], c[1], c[2], h=h, src=ln)
            else:
                cc = self._call(st.test)
                if cc is None or cc[0] != 'method':
                    raise Unsupported('if condition %s' % ast.unparse(st.test))
                self.call(cc, h, ln)
                j = self.emit(JZRET, None, h=h, src=ln)
            self.block(st.body, h, cleanups, ret_fix)
            if st.orelse:
                j2 = self.emit(JMP, None, h=h, src=ln)
                self._patch(j, len(self.code))
                self.block(st.orelse, h, cleanups, ret_fix)
                self._patch(j2, len(self.code))
            else:
                self._patch(j, len(self.code))
            return
        if isinstance(st, ast.AsyncWith) and len(st.items) == 1 and st.items[0].optional_vars is None \
                and self._selfattr(st.items[0].context_expr) and st.items[0].context_expr.attr in self.locks:
            L = st.items[0].context_expr.attr
            self.emit(ACQ, L, h=h, src=ln)
            # exception path of the body: release, re-raise to the outer handler
            body_start = len(self.code)
            place = self.emit(JMP, None, h=h, src=ln)     # placeholder jump over the exception stub
            exc_pc = len(self.code)
            self.emit(REL, L, h=h, src=ln)
            self.emit(RAISE, h=h, src=ln)
            self._patch(place, len(self.code))

            def cl(hh, L=L, ln=ln):
                self.emit(REL, L, h=hh, src=ln)
            self.block(st.body, exc_pc, cleanups + [cl], ret_fix)
            self.emit(REL, L, h=h, src=ln)
            return
        if isinstance(st, ast.Try) and st.finalbody and not st.handlers and not st.orelse:
            place = self.emit(JMP, None, h=h, src=ln)
            exc_pc = len(self.code)
            self.block(st.finalbody, h, cleanups, ret_fix)      # exception copy of the finally body
            self.emit(RAISE, h=h, src=ln)
            self._patch(place, len(self.code))

            def cl(hh, body=st.finalbody):
                self.block(body, hh, cleanups, ret_fix)
            self.block(st.body, exc_pc, cleanups + [cl], ret_fix)
            self.block(st.finalbody, h, cleanups, ret_fix)      # normal copy
            return
        if isinstance(st, ast.Try) and len(st.handlers) == 1 and not st.finalbody and not st.orelse \
                and isinstance(st.handlers[0].type, ast.Name) and st.handlers[0].type.id == 'BaseException' \
                and st.handlers[0].name is None:
            place = self.emit(JMP, None, h=h, src=ln)
            exc_pc = len(self.code)
            self.block(st.handlers[0].body, h, cleanups, ret_fix)
            after_handler = self.emit(JMP, None, h=h, src=ln)
            self._patch(place, len(self.code))
            self.block(st.body, exc_pc, cleanups, ret_fix)
            self._patch(after_handler, len(self.code))
            return
        raise Unsupported('statement: %s' % ast.unparse(st)[:80])

    def _patch(self, idx, target):
        ins = self.code[idx]
        if ins.op == JMP:
            ins.a = target
        elif ins.op == JZRET:
            ins.a = target
        elif ins.op == JNCMP:
            self.code[idx] = Ins(JNCMP, ins.a, ins.b, (ins.c, target), h=ins.h, src=ins.src)

    def call(self, c, h, ln):
        kind, name = c
        if kind == 'acq':
            self.emit(ACQ, name, h=h, src=ln)
        elif kind == 'rel':
            self.emit(REL, name, h=h, src=ln)
        else:
            self.inline(name, h)

    def inline(self, name, h, depth=0):
        if depth > 4:
            raise Unsupported('recursion')
        fn = self.methods[name]
        ret_fix = []
        self.block(fn.body, h, [], ret_fix)
        for idx in ret_fix:
            self._patch(idx, len(self.code))

    def program(self, method):
        """compile one context-manager method (read_lock / write_lock) into a fresh program"""
        self.code = []
        self.inline(method, -1)
        self.emit(END, h=-1)
        code = self.code
        for i, ins in enumerate(code):
            if ins.op == JNCMP and not isinstance(ins.c, tuple):
                raise Unsupported('unpatched jump')
        return code


def compile_rwlock(path=None, cls='_AsyncioReadWriteLock'):
    import os
    path = path or os.path.join(os.environ.get('VERIF_REPO') or '/repo', 'pymap/concurrent.py')
    src = open(path).read()
    tree = ast.parse(src)
    cd = next((n for n in ast.walk(tree) if isinstance(n, ast.ClassDef) and n.name == cls), None)
    if cd is None:
        raise Unsupported('class %s not found' % cls)
    comp = Compiler(cd)
    reader = comp.program('read_lock')
    writer = comp.program('write_lock')
    seg = ast.get_source_segment(src, cd)
    return {'reader': reader, 'writer': writer, 'locks': sorted(comp.locks), 'attrs': sorted(comp.attrs),
            'init': dict(comp.init), 'source': seg}


# ---------------------------------------------------------------- concrete interpreter
def cmp(op, x, c):
    return {'==': x == c, '!=': x != c, '<': x < c, '<=': x <= c, '>': x > c, '>=': x >= c}[op]


class Concrete:
    """The automaton with asyncio.Lock / Task / Future semantics (CPython 3.12)
    and a FIFO ready queue.  Actions: ('start', t) ('run',) ('open', t)
    ('cancel', t).  Per task the future it awaits is pending / set / cancelled."""

    def __init__(self, model, kinds):
        self.m = model
        self.kinds = kinds                       # list of 'r' | 'w'
        self.prog = [model['reader'] if k == 'r' else model['writer'] for k in kinds]
        T = len(kinds)
        self.pc = [0] * T
        self.ret = [False] * T
        self.status = ['NS'] * T                 # NS RD BL PK DN CX(cancelled out)
        self.attrs = dict(model['init'])
        self.locked = {L: False for L in model['locks']}
        self.waiters = {L: [] for L in model['locks']}    # FIFO of task ids
        self.fut = [None] * T                    # None | 'pending' | 'set' | 'cancelled'
        self.must_cancel = [False] * T
        self.cancelled_once = [False] * T
        self.ready = []
        self.incs = [False] * T
        self.trace = []
        self.bad = None

    def enabled(self):
        acts = []
        if self.ready:
            acts.append(('run',))
        for t, s in enumerate(self.status):
            if s == 'NS':
                acts.append(('start', t))
            if s == 'PK' and self.fut[t] == 'pending':
                acts.append(('open', t))
            if s in ('BL', 'PK') and not self.cancelled_once[t]:
                acts.append(('cancel', t))
        return acts

    def _wake_first(self, L):
        # asyncio.Lock._wake_up_first: first waiter only; if its future is already done, nothing happens
        if self.waiters[L]:
            u = self.waiters[L][0]
            if self.fut[u] == 'pending':
                self.fut[u] = 'set'
                self.ready.append(u)

    def act(self, a):
        if a[0] == 'start':
            t = a[1]
            self.status[t] = 'RD'
            self.ready.append(t)
        elif a[0] == 'open':
            t = a[1]
            if self.status[t] == 'PK' and self.fut[t] == 'pending':
                self.fut[t] = 'set'
                self.ready.append(t)
        elif a[0] == 'cancel':
            t = a[1]
            self.cancelled_once[t] = True
            if self.fut[t] == 'pending':
                self.fut[t] = 'cancelled'       # Task.cancel(): fut_waiter.cancel() -> wakeup scheduled
                self.ready.append(t)
            else:
                self.must_cancel[t] = True      # future already done: CancelledError thrown at the next step
        else:
            t = self.ready.pop(0)
            self._run(t)

    def _run(self, t):
        prog = self.prog[t]
        ins = prog[self.pc[t]]
        if self.status[t] in ('BL', 'PK'):
            cancelled = self.fut[t] == 'cancelled' or self.must_cancel[t]
            self.must_cancel[t] = False
            self.fut[t] = None
            if ins.op == ACQ:
                L = ins.a
                self.waiters[L].remove(t)
                if cancelled:
                    # except CancelledError: if not self._locked: self._wake_up_first(); raise
                    if not self.locked[L]:
                        self._wake_first(L)
                    self.status[t] = 'RD'
                    self._raise(t, ins.h)
                    if self.status[t] == 'CX':
                        return
                else:
                    self.locked[L] = True
                    self.status[t] = 'RD'
                    self.pc[t] += 1
            else:   # CS
                self.incs[t] = False
                self.trace.append(('exit', t))
                self.status[t] = 'RD'
                if cancelled:
                    self._raise(t, ins.h)
                    if self.status[t] == 'CX':
                        return
                else:
                    self.pc[t] += 1
        for _ in range(300):
            ins = prog[self.pc[t]]
            op = ins.op
            if op == ACQ:
                L = ins.a
                if not self.locked[L] and not [w for w in self.waiters[L] if self.fut[w] != 'cancelled']:
                    self.locked[L] = True
                    self.pc[t] += 1
                else:
                    self.waiters[L].append(t)
                    self.fut[t] = 'pending'
                    self.status[t] = 'BL'
                    return
            elif op == REL:
                L = ins.a
                if not self.locked[L]:
                    self.bad = 'release of an unlocked lock %s by task %d' % (L, t)
                    self.status[t] = 'DN'
                    return
                self.locked[L] = False
                self._wake_first(L)
                self.pc[t] += 1
            elif op == ADD:
                self.attrs[ins.a] += ins.b
                self.pc[t] += 1
            elif op == SETRET:
                self.ret[t] = cmp(ins.b, self.attrs[ins.a], ins.c)
                self.pc[t] += 1
            elif op == JMP:
                self.pc[t] = ins.a
            elif op == JZRET:
                self.pc[t] = self.pc[t] + 1 if self.ret[t] else ins.a
            elif op == JNCMP:
                c, target = ins.c
                self.pc[t] = self.pc[t] + 1 if cmp(ins.b, self.attrs[ins.a], c) else target
            elif op == CS:
                for u in range(len(self.kinds)):
                    if u != t and self.incs[u] and ('w' in (self.kinds[t], self.kinds[u])):
                        self.bad = 'task %d (%s) entered while task %d (%s) is inside' % (
                            t, self.kinds[t], u, self.kinds[u])
                self.incs[t] = True
                self.trace.append(('enter', t))
                self.status[t] = 'PK'
                self.fut[t] = 'pending'
                return
            elif op == RAISE:
                self._raise(t, ins.h)
                if self.status[t] == 'CX':
                    return
            elif op == END:
                self.status[t] = 'DN'
                return
        raise RuntimeError('interpreter did not stop')

    def _raise(self, t, h):
        if h < 0:
            self.status[t] = 'CX'
            self.trace.append(('cancelled', t))
        else:
            self.pc[t] = h

    def deadlocked(self):
        unfinished = [t for t, s in enumerate(self.status) if s not in ('DN', 'CX', 'NS')]
        if not unfinished:
            return False
        return not self.ready and all(self.status[t] == 'BL' for t in unfinished)


# ---------------------------------------------------------------- the real classes under a stepping driver
class Real:
    """pymap's real lock class on a real asyncio loop that the harness steps
    one handle at a time (FIFO of loop._ready), same action alphabet."""

    def __init__(self, kinds, lock_factory):
        import asyncio
        self.asyncio = asyncio
        self.loop = asyncio.new_event_loop()
        self.kinds = kinds
        self.tasks = [None] * len(kinds)
        self.gates = [None] * len(kinds)
        self.trace = []
        self.inside = [False] * len(kinds)
        self.bad = None
        self._run_with_loop(lambda: setattr(self, 'lock', lock_factory()))

    def _run_with_loop(self, fn):
        ev = self.asyncio.events
        ev._set_running_loop(self.loop)
        try:
            return fn()
        finally:
            ev._set_running_loop(None)

    async def _body(self, t):
        cm = self.lock.read_lock() if self.kinds[t] == 'r' else self.lock.write_lock()
        try:
            async with cm:
                for u in range(len(self.kinds)):
                    if u != t and self.inside[u] and 'w' in (self.kinds[t], self.kinds[u]):
                        self.bad = 'task %d (%s) entered while task %d (%s) is inside' % (
                            t, self.kinds[t], u, self.kinds[u])
                self.inside[t] = True
                self.trace.append(('enter', t))
                self.gates[t] = self.loop.create_future()
                try:
                    await self.gates[t]
                finally:
                    self.inside[t] = False
                    self.trace.append(('exit', t))
        except self.asyncio.CancelledError:
            self.trace.append(('cancelled', t))
        except RuntimeError as exc:
            # asyncio.Lock.release() of an unlocked lock
            self.bad = 'task %d: RuntimeError: %s' % (t, exc)

    def act(self, a):
        if a[0] == 'start':
            self._run_with_loop(lambda: self.tasks.__setitem__(a[1], self.loop.create_task(self._body(a[1]))))
        elif a[0] == 'open':
            g = self.gates[a[1]]
            if g is not None and not g.done():
                self._run_with_loop(lambda: g.set_result(None))
        elif a[0] == 'cancel':
            self._run_with_loop(lambda: self.tasks[a[1]].cancel())
        else:
            if self.loop._ready:
                h = self.loop._ready.popleft()
                self._run_with_loop(h._run)

    def drain(self):
        n = 0
        while self.loop._ready and n < 1000:
            self.act(('run',))
            n += 1

    def close(self):
        for t in self.tasks:
            if t is not None and not t.done():
                t.cancel()
        self.drain()
        self.loop.close()

"""pysymex: shape-concrete / value-symbolic execution of the real pymap code."""
from .core import *  # noqa
from .symbytes import *  # noqa

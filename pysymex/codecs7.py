"""Exact models of CPython's UTF-7 codec, UTF-16-BE and base64 over items
(int | SymInt), ported from Objects/unicodeobject.c (3.12).  Validated by
pysymex.difftest against the real codecs on exhaustive small corpora.

Class tests fork (through ``if`` on SymBool); values are linear integer
arithmetic with div/mod by constants.
"""
from __future__ import annotations

from typing import Any

import z3

from .core import SymInt, SymBool, Unsupported, is_sym, _it

__all__ = ['utf7_decode', 'utf7_encode', 'utf16be_encode', 'utf16be_decode',
           'b64encode_items', 'b64decode_items']


def _rng(c: Any, lo: int, hi: int) -> Any:
    if isinstance(c, int):
        return lo <= c <= hi
    return SymBool(z3.And(c.t >= lo, c.t <= hi))


class B64Char(SymInt):
    """a byte produced by _to_b64(v), 0 <= v < 64: remembers v, so that
    decoding it again does not have to invert the alphabet if-chain"""
    __slots__ = ('src', 'grp')

    def __init__(self, t: Any, src: Any) -> None:
        SymInt.__init__(self, t)
        self.src = src
        self.grp = None      # (the list of 1-3 source bytes this character encodes, position 0..3): set by b64encode_items


def _is_b64(c: Any) -> Any:
    if isinstance(c, B64Char):
        return True
    if isinstance(c, int):
        return (48 <= c <= 57) or (65 <= c <= 90) or (97 <= c <= 122) or c in (43, 47)
    t = c.t
    return SymBool(z3.Or(z3.And(t >= 48, t <= 57), z3.And(t >= 65, t <= 90),
                         z3.And(t >= 97, t <= 122), t == 43, t == 47))


def _from_b64(c: Any) -> Any:
    if isinstance(c, B64Char):
        return c.src
    if isinstance(c, int):
        if 65 <= c <= 90:
            return c - 65
        if 97 <= c <= 122:
            return c - 71
        if 48 <= c <= 57:
            return c + 4
        return 62 if c == 43 else 63
    t = c.t
    return SymInt(z3.If(z3.And(t >= 65, t <= 90), t - 65,
                        z3.If(z3.And(t >= 97, t <= 122), t - 71,
                              z3.If(z3.And(t >= 48, t <= 57), t + 4,
                                    z3.If(t == 43, 62, 63)))))


def _to_b64(v: Any) -> Any:
    if isinstance(v, int):
        return b'ABCDEFGHIJKLMNOPQRSTUVWXYZabcdefghijklmnopqrstuvwxyz0123456789+/'[v]
    t = v.t
    return B64Char(z3.If(t < 26, t + 65, z3.If(t < 52, t + 71, z3.If(t < 62, t - 4,
                                                                   z3.If(t == 62, 43, 47)))), v)


def _divmod(x: Any, k: int) -> tuple:
    """x // k, x % k for x >= 0 as fresh variables with linear defining
    constraints (x == q*k + r, 0 <= r < k, q >= 0): keeps the path conditions
    inside linear integer arithmetic instead of nested div/mod terms"""
    if isinstance(x, int):
        return x // k, x % k
    from .core import cur
    eng = cur()
    key = (x.t.get_id(), k)
    cache = eng.path_cache
    hit = cache.get(key)
    if hit is not None:
        return hit
    q = z3.Int('dq%d' % eng.nfresh)
    eng.nfresh += 1
    r = z3.Int('dr%d' % eng.nfresh)
    eng.nfresh += 1
    eng.solver.add(x.t == q * k + r, r >= 0, r < k, q >= 0)
    eng.model = None
    res = (SymInt(q), SymInt(r), x)  # keep x alive so its term id is not reused
    cache[key] = res
    return res


def _div(x: Any, k: int) -> Any:
    return _divmod(x, k)[0]


def _mod(x: Any, k: int) -> Any:
    return _divmod(x, k)[1]


def _err(pos: int, msg: str) -> UnicodeDecodeError:
    return UnicodeDecodeError('utf7', b'?', pos, pos + 1, msg)


def utf7_decode(items: list, errors: str = 'strict') -> list:
    """code points (lone surrogates possible, as in CPython)"""
    if errors != 'strict':
        raise Unsupported('utf-7 decode errors=%s' % errors)
    out: list = []
    n = len(items)
    s = 0
    in_shift = False
    bits = 0
    buf: Any = 0
    surrogate: Any = None
    while s < n:
        ch = items[s]
        if in_shift:
            if _is_b64(ch):
                buf = buf * 64 + _from_b64(ch)
                bits += 6
                s += 1
                if bits >= 16:
                    k = 1 << (bits - 16)
                    out_ch = _div(buf, k)
                    bits -= 16
                    buf = _mod(buf, k)
                    if surrogate is not None:
                        if _rng(out_ch, 0xDC00, 0xDFFF):
                            out.append(0x10000 + (surrogate - 0xD800) * 1024 + (out_ch - 0xDC00))
                            surrogate = None
                            continue
                        out.append(surrogate)
                        surrogate = None
                    if _rng(out_ch, 0xD800, 0xDBFF):
                        surrogate = out_ch
                    else:
                        out.append(out_ch)
            else:
                in_shift = False
                if bits > 0:
                    if bits >= 6:
                        raise _err(s, 'partial character in shift sequence')
                    if buf != 0:
                        raise _err(s, 'non-zero padding bits in shift sequence')
                if surrogate is not None and (_rng(ch, 0, 127) and ch != 43):
                    out.append(surrogate)
                surrogate = None
                if ch == 45:
                    s += 1
        elif ch == 43:
            s += 1
            if s < n and items[s] == 45:
                s += 1
                out.append(43)
            elif s < n and not _is_b64(items[s]):
                raise _err(s, 'ill-formed sequence')
            else:
                in_shift = True
                surrogate = None
                bits = 0
                buf = 0
        elif _rng(ch, 0, 127):
            s += 1
            out.append(ch)
        else:
            raise _err(s, 'unexpected special character')
    if in_shift:
        if surrogate is not None or bits >= 6 or (bits > 0 and buf != 0):
            raise _err(n, 'unterminated shift sequence')
    return out


def _encode_direct(c: Any) -> Any:
    # ENCODE_DIRECT(c, directO=1, directWS=1): c < 128, c > 0, category != 3
    if isinstance(c, int):
        return c in (9, 10, 13) or (32 <= c <= 126 and c not in (43, 92, 126))
    t = c.t
    return SymBool(z3.Or(t == 9, t == 10, t == 13,
                         z3.And(t >= 32, t <= 125, t != 43, t != 92)))


def utf7_encode(cps: list) -> list:
    out: list = []
    in_shift = False
    bits = 0
    buf: Any = 0

    def put16(unit: Any) -> None:
        nonlocal bits, buf
        buf = buf * 65536 + unit
        bits += 16
        while bits >= 6:
            k = 1 << (bits - 6)
            out.append(_to_b64(_div(buf, k)))
            buf = _mod(buf, k)
            bits -= 6

    for ch in cps:
        if in_shift:
            if _encode_direct(ch):
                if bits:
                    out.append(_to_b64(buf * (1 << (6 - bits))))
                    buf = 0
                    bits = 0
                in_shift = False
                if _is_b64(ch) or ch == 45:
                    out.append(45)
                out.append(ch)
                continue
        else:
            if ch == 43:
                out += [43, 45]
                continue
            if _encode_direct(ch):
                out.append(ch)
                continue
            out.append(43)
            in_shift = True
        if _rng(ch, 0x10000, 0x10FFFF):
            v = ch - 0x10000
            put16(0xD800 + _div(v, 1024))
            ch = 0xDC00 + _mod(v, 1024)
        put16(ch)
    if bits:
        out.append(_to_b64(buf * (1 << (6 - bits))))
    if in_shift:
        out.append(45)
    return out


def utf16be_encode(cps: list, errors: str = 'strict') -> list:
    out: list = []
    for c in cps:
        if _rng(c, 0x10000, 0x10FFFF):
            v = c - 0x10000
            hi = 0xD800 + _div(v, 1024)
            lo = 0xDC00 + _mod(v, 1024)
            out += [_div(hi, 256), _mod(hi, 256), _div(lo, 256), _mod(lo, 256)]
        elif _rng(c, 0xD800, 0xDFFF):
            if errors == 'surrogatepass':
                out += [_div(c, 256), _mod(c, 256)]
            else:
                raise UnicodeEncodeError('utf-16-be', '?', 0, 1, 'surrogates not allowed')
        else:
            out += [_div(c, 256), _mod(c, 256)]
    return out


def utf16be_decode(items: list) -> list:
    n = len(items)
    if n % 2:
        raise UnicodeDecodeError('utf-16-be', b'?', n - 1, n, 'truncated data')
    units = [items[i] * 256 + items[i + 1] for i in range(0, n, 2)]
    out: list = []
    i = 0
    while i < len(units):
        u = units[i]
        if _rng(u, 0xD800, 0xDBFF):
            if i + 1 < len(units) and _rng(units[i + 1], 0xDC00, 0xDFFF):
                out.append(0x10000 + (u - 0xD800) * 1024 + (units[i + 1] - 0xDC00))
                i += 2
                continue
            raise UnicodeDecodeError('utf-16-be', b'?', 2 * i, 2 * i + 2, 'illegal UTF-16 surrogate')
        if _rng(u, 0xDC00, 0xDFFF):
            raise UnicodeDecodeError('utf-16-be', b'?', 2 * i, 2 * i + 2, 'illegal encoding')
        out.append(u)
        i += 1
    return out


def _tag_group(chars: list, chunk: list) -> list:
    for k, ch in enumerate(chars):
        if isinstance(ch, B64Char):
            ch.grp = (chunk, k)
    return chars


def _same_group(chars: list) -> Any:
    """the source bytes if `chars` are exactly the characters one b64encode_items group produced, in order"""
    g0 = getattr(chars[0], 'grp', None)
    if g0 is None or g0[1] != 0:
        return None
    for k, ch in enumerate(chars):
        g = getattr(ch, 'grp', None)
        if g is None or g[0] is not g0[0] or g[1] != k:
            return None
    return g0[0]


def b64encode_items(items: list) -> list:
    out: list = []
    n = len(items)
    for i in range(0, n, 3):
        chunk = items[i:i + 3]
        if len(chunk) == 3:
            v = chunk[0] * 65536 + chunk[1] * 256 + chunk[2]
            out += _tag_group([_to_b64(_div(v, 262144)), _to_b64(_mod(_div(v, 4096), 64)),
                               _to_b64(_mod(_div(v, 64), 64)), _to_b64(_mod(v, 64))], chunk)
        elif len(chunk) == 2:
            v = chunk[0] * 256 + chunk[1]
            out += _tag_group([_to_b64(_div(v, 1024)), _to_b64(_mod(_div(v, 16), 64)),
                               _to_b64(_mod(v, 16) * 4)], chunk) + [61]
        else:
            v = chunk[0]
            out += _tag_group([_to_b64(_div(v, 4)), _to_b64(_mod(v, 4) * 16)], chunk) + [61, 61]
    return out


def b64decode_items(items: list, validate: bool = False) -> list:
    """base64.b64decode: with validate=False characters outside the alphabet are discarded (each symbolic character
    forks on "in the alphabet"); with validate=True the input must match [A-Za-z0-9+/]*={0,2} or binascii.Error is
    raised.  A symbolic '=' is outside the model (Unsupported)."""
    import binascii
    kept = []
    for c in items:
        if isinstance(c, int) and c == 61:
            kept.append(c)
            continue
        ok = _is_b64(c)
        if not isinstance(ok, bool):
            if bool(c == 61):
                raise Unsupported('base64.b64decode of a symbolic padding character')
            ok = bool(ok)
        if ok:
            kept.append(c)
        elif validate:
            raise binascii.Error('Non-base64 digit found')
    items = kept
    if validate:
        seen_pad = False
        for c in items:
            if isinstance(c, int) and c == 61:
                seen_pad = True
            elif seen_pad:
                raise binascii.Error('Non-base64 digit found')
    n = len(items)
    pad = 0
    while pad < n and isinstance(items[n - 1 - pad], int) and items[n - 1 - pad] == 61:
        pad += 1
    body = items[:n - pad]
    for c in body:
        if isinstance(c, int) and c == 61:
            if validate:
                raise binascii.Error('Non-base64 digit found')
            raise Unsupported('base64.b64decode(validate=False) with padding inside the data')
    if validate and pad > 2:
        raise binascii.Error('Non-base64 digit found')
    # binascii.a2b_base64: the data characters decide; missing padding is an error, excess padding is ignored
    need = {0: 0, 2: 2, 3: 1}.get(len(body) % 4)
    if need is None or pad < need:
        raise binascii.Error('Incorrect padding')
    if validate and not body and pad:
        raise binascii.Error('Leading padding not allowed')
    if validate and need and pad != need:
        raise binascii.Error('Excess padding not allowed')       # strict mode of binascii.a2b_base64 (CPython 3.12)
    vals = [_from_b64(c) for c in body]
    out: list = []
    for i in range(0, len(vals), 4):
        ch = vals[i:i + 4]
        src = _same_group(body[i:i + 4])
        if src is not None and len(src) == {4: 3, 3: 2, 2: 1}.get(len(ch)):
            out += list(src)       # decoding exactly what b64encode_items produced from these bytes
            continue
        if len(ch) == 4:
            v = ch[0] * 262144 + ch[1] * 4096 + ch[2] * 64 + ch[3]
            out += [_div(v, 65536), _mod(_div(v, 256), 256), _mod(v, 256)]
        elif len(ch) == 3:
            v = ch[0] * 4096 + ch[1] * 64 + ch[2]
            out += [_div(v, 1024), _mod(_div(v, 4), 256)]
        elif len(ch) == 2:
            v = ch[0] * 64 + ch[1]
            out += [_div(v, 16)]
    return out

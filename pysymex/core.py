"""pysymex core: shape-concrete / value-symbolic execution of real Python code.

Every Python branch on a symbolic value (``SymBool.__bool__``) asks z3 which
sides are satisfiable under the path condition and explores each satisfiable
side by re-execution from a recorded decision prefix (depth first).  At the
end of each path the harness hands back a property (a z3 Bool built with
non-forking ``&``/``|``); ``prove`` issues ``pc and not prop``.

Verdicts: unsat on every path of an exhausted tree = holds for all values
inside the stated shape bound; sat = model = concrete counterexample (to be
replayed on uninstrumented code by the caller); unknown = inconclusive.
"""
from __future__ import annotations

import numbers
import os
import json
import time
from typing import Any, Callable

import z3

__all__ = ['Unsupported', 'Infeasible', 'FuelExhausted', 'BoundExceeded',
           'Engine', 'SymBool', 'SymInt', 'SymUid', 'is_sym', 'B', 'AND', 'OR',
           'NOT', 'IMPLIES', 'ite', 'cur', 'Outcome']


class Unsupported(BaseException):
    """The engine cannot model a construct: the run is inconclusive."""


class Infeasible(BaseException):
    """The current path condition is unsatisfiable."""


class FuelExhausted(BaseException):
    """A loop ran past the budget stated by the harness."""


class BoundExceeded(BaseException):
    """The path leaves the stated shape bound (counted, outside the claim)."""


def is_sym(x: Any) -> bool:
    return getattr(type(x), '_sym', False)


class Outcome:
    """What a harness returns at the end of one path."""

    __slots__ = ('prop', 'witness', 'info', 'site')

    def __init__(self, prop: Any, witness: Callable[[Any], Any] | None = None,
                 info: Any = None, site: str = 'main') -> None:
        self.prop = prop
        self.witness = witness
        self.info = info
        self.site = site


class Engine:
    cur: 'Engine | None' = None

    def __init__(self, timeout_ms: int = 30000, fuel: int | None = None) -> None:
        self.solver = z3.Solver()
        self.solver.set('timeout', timeout_ms)
        self.prefix: list[tuple[Any, Any]] = []
        self.pending: list[list[tuple[Any, Any]]] = []
        self.trail: list[tuple[Any, Any]] = []
        self.pos = 0
        self.model: Any = None
        self.fuel_budget = fuel
        self.fuel_used = 0
        self.nfresh = 0
        self.inputs: list[Any] = []
        self.notes: list[str] = []
        # statistics
        self.n_paths = 0
        self.n_feas = 0
        self.n_proof = {'unsat': 0, 'sat': 0, 'unknown': 0}
        self.n_infeasible = 0
        self.n_bound = 0
        self.n_vacuous = 0
        self.sample_every = 0
        self.t_solver = 0.0
        self.n_model_hits = 0
        self.sites: dict[str, int] = {}

    # ------------------------------------------------------------ inputs
    def _name(self, name: str) -> str:
        self.nfresh += 1
        return name

    def fresh_int(self, name: str, lo: int | None = None,
                  hi: int | None = None, cls: type | None = None) -> 'SymInt':
        v = z3.Int(self._name(name))
        if lo is not None:
            self.add(v >= lo)
        if hi is not None:
            self.add(v <= hi)
        self.inputs.append(v)
        return (cls or SymInt)(v)

    def fresh_bool(self, name: str) -> 'SymBool':
        v = z3.Bool(self._name(name))
        self.inputs.append(v)
        return SymBool(v)

    def add(self, c: Any) -> None:
        """Assume c (no feasibility check here; checked at the next query)."""
        if isinstance(c, SymBool):
            c = c.t
        elif isinstance(c, bool):
            c = z3.BoolVal(c)
        self.solver.add(c)
        if self.model is not None:
            try:
                if not z3.is_true(self.model.eval(c, model_completion=True)):
                    self.model = None
            except z3.Z3Exception:
                self.model = None

    assume = add

    # ------------------------------------------------------------ solving
    def _check(self, *assumptions: Any) -> Any:
        t = time.perf_counter()
        r = self.solver.check(*assumptions)
        self.t_solver += time.perf_counter() - t
        return r

    def _sat(self, c: Any) -> bool:
        self.n_feas += 1
        r = self._check(c)
        if r == z3.unknown:
            raise Unsupported('solver returned unknown on a feasibility query')
        if r == z3.sat:
            self._last_model = self.solver.model()
            return True
        return False

    def _ensure_model(self) -> None:
        if self.model is None:
            self.n_feas += 1
            r = self._check()
            if r == z3.unsat:
                raise Infeasible()
            if r == z3.unknown:
                raise Unsupported('solver returned unknown')
            self.model = self.solver.model()

    def branch(self, cond: Any, tag: Any = None) -> bool:
        cond = z3.simplify(cond)
        if z3.is_true(cond):
            return True
        if z3.is_false(cond):
            return False
        if self.pos < len(self.prefix):
            choice = self.prefix[self.pos][0]
            self.model = None
        else:
            self._ensure_model()
            mv = z3.is_true(self.model.eval(cond, model_completion=True))
            self.n_model_hits += 1
            other = z3.Not(cond) if mv else cond
            if self._sat(other):
                other_model = self._last_model
                # both sides feasible: take True first, queue False
                choice = True
                self.pending.append(self.trail + [(False, tag)])
                if not mv:
                    self.model = other_model
            else:
                choice = mv
        self.pos += 1
        self.trail.append((choice, tag))
        self.solver.add(cond if choice else z3.Not(cond))
        return choice

    def concretize(self, term: Any, limit: int = 64) -> int:
        """Fork over the feasible values of an integer term (bounded)."""
        term = z3.simplify(term)
        if z3.is_int_value(term):
            return term.as_long()
        n = 0
        while True:
            n += 1
            if n > limit:
                raise Unsupported('unbounded concretisation of %s' % term)
            if self.pos < len(self.prefix):
                v = self.prefix[self.pos][1]
            else:
                self._ensure_model()
                v = self.model.eval(term, model_completion=True).as_long()
            if self.branch(term == v, tag=v):
                return v

    def choose(self, name: str, n: int) -> int:
        """Harness-level nondeterministic choice in range(n), as a fork."""
        if n <= 0:
            raise Infeasible()
        if n == 1:
            return 0
        v = z3.Int(self._name(name))
        self.add(v >= 0)
        self.add(v < n)
        self.inputs.append(v)
        return self.concretize(v, limit=n + 1)

    def flip(self, name: str) -> bool:
        return self.branch(z3.Bool(self._name(name)))

    def prove(self, prop: Any) -> Any:
        """None if prop holds on this path for all values, else a model."""
        if isinstance(prop, SymBool):
            prop = prop.t
        elif isinstance(prop, bool):
            prop = z3.BoolVal(prop)
        prop = z3.simplify(prop)
        if z3.is_true(prop):
            # still a discharged obligation, trivially
            self.n_proof['unsat'] += 1
            return None
        r = self._check(z3.Not(prop))
        if r == z3.unsat:
            self.n_proof['unsat'] += 1
            return None
        if r == z3.unknown:
            self.n_proof['unknown'] += 1
            raise Unsupported('solver returned unknown on a proof query')
        self.n_proof['sat'] += 1
        return self.solver.model()

    def tick(self) -> None:
        """Loop-head monitor (see loader: ``__fuel__``)."""
        self.fuel_used += 1
        if self.fuel_budget is not None and self.fuel_used > self.fuel_budget:
            raise FuelExhausted('%d loop iterations' % self.fuel_used)

    # ------------------------------------------------------------ exploring
    path_start_hooks: list = []      # callables run when a path starts (per-path tables of other modules)

    def run_path(self, fn: Callable[['Engine'], Any], prefix: list) -> dict | None:
        """Execute one path from a decision prefix; returns a record."""
        Engine.cur = self
        for hook in Engine.path_start_hooks:
            hook()
        self.prefix = prefix
        self.trail = []
        self.pos = 0
        self.model = None
        self.inputs = []
        self.notes = []
        self.fuel_used = 0
        self.nfresh = 0
        self.path_cache = {}
        self.solver.push()
        rec: dict | None = None
        try:
            try:
                out = fn(self)
            except Infeasible:
                self.n_infeasible += 1
                return None
            except BoundExceeded as exc:
                self.n_bound += 1
                self.n_paths += 1
                return {'status': 'bound', 'detail': str(exc)}
            if not isinstance(out, Outcome):
                out = Outcome(out)
            model = self.prove(out.prop)
            if model is None:
                # vacuity guard: the path condition itself must be satisfiable
                # (assumptions added after the last branch could have made it
                # unsat, which would "prove" anything)
                try:
                    self._ensure_model()
                except Infeasible:
                    self.n_infeasible += 1
                    self.n_vacuous += 1
                    return None
            self.n_paths += 1
            self.sites[out.site] = self.sites.get(out.site, 0) + 1
            if model is None:
                rec = {'status': 'proved', 'site': out.site, 'info': out.info}
                if out.witness is not None and self.sample_every and \
                        self.n_paths % self.sample_every == 1 % self.sample_every:
                    rec['sample'] = out.witness(self.model)
            else:
                wit = out.witness(model) if out.witness else None
                if os.environ.get('VERIF_DEBUG_CEX') and not getattr(self, '_in_recheck', False):
                    # debugging aid: run the same decisions again on a fresh engine in this process
                    e2 = Engine()
                    e2._in_recheck = True
                    mine = [str(a_) for a_ in self.solver.assertions()]
                    prop1 = str(out.prop.t if isinstance(out.prop, SymBool) else out.prop)
                    r2 = e2.run_path(fn, list(self.trail))
                    Engine.cur = self
                    with open(os.environ['VERIF_DEBUG_CEX'], 'a') as f:
                        f.write(json.dumps({'pid': os.getpid(), 'wit': wit, 'second_run': r2 and r2['status'],
                                            'prop': prop1[:3000], 'assertions': mine[-60:],
                                            'second_assertions': getattr(e2, '_last_assertions', None)}, default=str) + '\n')
                rec = {'status': 'cex', 'site': out.site, 'info': out.info,
                       'witness': wit,
                       'trail': [[c, t if isinstance(t, (int, str, bool, type(None))) else str(t)] for c, t in self.trail][:400]}
            return rec
        finally:
            if getattr(self, '_in_recheck', False):
                self._last_assertions = [str(a_) for a_ in self.solver.assertions()][-60:]
            self.solver.pop()

    def explore(self, fn: Callable[['Engine'], Any], roots: list | None = None,
                max_paths: int | None = None, deadline: float | None = None):
        """Depth-first exploration.  Yields path records.  Leaves unexplored
        prefixes in ``self.pending`` when a budget stops it."""
        self.pending = list(roots) if roots is not None else [[]]
        done = 0
        while self.pending:
            if max_paths is not None and done >= max_paths:
                return
            if deadline is not None and time.time() > deadline:
                return
            prefix = self.pending.pop()
            rec = self.run_path(fn, prefix)
            done += 1
            if rec is not None:
                yield rec

    def stats(self) -> dict:
        return {'paths': self.n_paths, 'feasibility_queries': self.n_feas,
                'proof_unsat': self.n_proof['unsat'],
                'proof_sat': self.n_proof['sat'],
                'proof_unknown': self.n_proof['unknown'],
                'infeasible_prefixes': self.n_infeasible,
                'bound_exceeded_paths': self.n_bound, 'vacuous': self.n_vacuous,
                'solver_s': round(self.t_solver, 3), 'sites': dict(self.sites)}


def cur() -> Engine:
    e = Engine.cur
    if e is None:
        raise RuntimeError('no active engine')
    return e


# ---------------------------------------------------------------- values
def _bt(x: Any) -> Any:
    if isinstance(x, SymBool):
        return x.t
    if isinstance(x, (bool, int)):
        return z3.BoolVal(bool(x))
    if is_sym(x):
        return z3.BoolVal(True) if x is not None else z3.BoolVal(False)
    return z3.BoolVal(bool(x))


class SymBool:
    _sym = True
    __slots__ = ('t',)

    def __init__(self, t: Any) -> None:
        self.t = t

    def __bool__(self) -> bool:
        t = z3.simplify(self.t)
        if z3.is_true(t):
            return True
        if z3.is_false(t):
            return False
        return cur().branch(t)

    def __and__(self, o: Any) -> 'SymBool':
        return SymBool(z3.And(self.t, _bt(o)))
    __rand__ = __and__

    def __or__(self, o: Any) -> 'SymBool':
        return SymBool(z3.Or(self.t, _bt(o)))
    __ror__ = __or__

    def __xor__(self, o: Any) -> 'SymBool':
        return SymBool(z3.Xor(self.t, _bt(o)))
    __rxor__ = __xor__

    def __invert__(self) -> 'SymBool':
        return SymBool(z3.Not(self.t))

    def __eq__(self, o: Any) -> Any:
        if isinstance(o, (SymBool, bool)):
            return SymBool(self.t == _bt(o))
        return NotImplemented

    def __ne__(self, o: Any) -> Any:
        if isinstance(o, (SymBool, bool)):
            return SymBool(self.t != _bt(o))
        return NotImplemented

    def __hash__(self) -> int:
        raise Unsupported('hash(SymBool)')

    def __repr__(self) -> str:
        return 'SymBool(%s)' % (self.t,)

    def __index__(self) -> int:
        return int(bool(self))


def B(x: Any) -> SymBool:
    """Lift to SymBool without forking."""
    if isinstance(x, SymBool):
        return x
    if x is NotImplemented:
        return SymBool(z3.BoolVal(False))
    return SymBool(z3.BoolVal(bool(x)))


def AND(*xs: Any) -> SymBool:
    ts = [_bt(x) for x in xs]
    return SymBool(z3.And(*ts)) if ts else SymBool(z3.BoolVal(True))


def OR(*xs: Any) -> SymBool:
    ts = [_bt(x) for x in xs]
    return SymBool(z3.Or(*ts)) if ts else SymBool(z3.BoolVal(False))


def NOT(x: Any) -> SymBool:
    return SymBool(z3.Not(_bt(x)))


def IMPLIES(a: Any, b: Any) -> SymBool:
    return SymBool(z3.Implies(_bt(a), _bt(b)))


def _it(x: Any) -> Any:
    if isinstance(x, SymInt):
        return x.t
    if isinstance(x, SymBool):
        return z3.If(x.t, 1, 0)
    if isinstance(x, bool):
        return z3.IntVal(int(x))
    if isinstance(x, int):
        return z3.IntVal(x)
    return None


def ite(c: Any, a: Any, b: Any) -> Any:
    """Non-forking if-then-else over ints."""
    if isinstance(c, bool):
        return a if c else b
    at, bt = _it(a), _it(b)
    return SymInt(z3.If(_bt(c), at, bt))


class SymInt:
    _sym = True
    __slots__ = ('t',)

    def __init__(self, t: Any) -> None:
        self.t = t

    def _mk(self, t: Any) -> 'SymInt':
        return SymInt(t)

    def _bin(self, o: Any, f: Callable[[Any, Any], Any]) -> Any:
        ot = _it(o)
        if ot is None:
            return NotImplemented
        return self._mk(f(self.t, ot))

    def _cmp(self, o: Any, f: Callable[[Any, Any], Any]) -> Any:
        ot = _it(o)
        if ot is None:
            if isinstance(o, float) and o == o and o not in (float('inf'), float('-inf')):
                # exact: an integer against the rational value of the float
                if o.is_integer():
                    return SymBool(f(self.t, z3.IntVal(int(o))))
                return SymBool(f(z3.ToReal(self.t), z3.Q(*o.as_integer_ratio())))
            return NotImplemented
        return SymBool(f(self.t, ot))

    def __add__(self, o: Any) -> Any:
        return self._bin(o, lambda a, b: a + b)
    __radd__ = __add__

    def __sub__(self, o: Any) -> Any:
        return self._bin(o, lambda a, b: a - b)

    def __rsub__(self, o: Any) -> Any:
        return self._bin(o, lambda a, b: b - a)

    def __mul__(self, o: Any) -> Any:
        return self._bin(o, lambda a, b: a * b)
    __rmul__ = __mul__

    def __floordiv__(self, o: Any) -> Any:
        if isinstance(o, int) and not isinstance(o, bool) and o > 0:
            return self._mk(self.t / z3.IntVal(o))
        raise Unsupported('floordiv by non-constant or non-positive')

    def __mod__(self, o: Any) -> Any:
        if isinstance(o, int) and not isinstance(o, bool) and o > 0:
            return self._mk(self.t % z3.IntVal(o))
        raise Unsupported('mod by non-constant or non-positive')

    def __divmod__(self, o: Any) -> Any:
        return (self // o, self % o)

    def __neg__(self) -> 'SymInt':
        return self._mk(-self.t)

    def __pos__(self) -> 'SymInt':
        return self

    def __abs__(self) -> 'SymInt':
        return self._mk(z3.If(self.t >= 0, self.t, -self.t))

    def __eq__(self, o: Any) -> Any:
        return self._cmp(o, lambda a, b: a == b)

    def __ne__(self, o: Any) -> Any:
        return self._cmp(o, lambda a, b: a != b)

    def __lt__(self, o: Any) -> Any:
        return self._cmp(o, lambda a, b: a < b)

    def __le__(self, o: Any) -> Any:
        return self._cmp(o, lambda a, b: a <= b)

    def __gt__(self, o: Any) -> Any:
        return self._cmp(o, lambda a, b: a > b)

    def __ge__(self, o: Any) -> Any:
        return self._cmp(o, lambda a, b: a >= b)

    def __bool__(self) -> bool:
        return cur().branch(self.t != 0)

    HASH_OK = False

    def __hash__(self) -> int:
        if SymInt.HASH_OK:
            return 7919
        raise Unsupported('hash(SymInt)')

    def __index__(self) -> int:
        return cur().concretize(self.t)

    def __int__(self) -> int:
        return cur().concretize(self.t)

    def __repr__(self) -> str:
        return 'SymInt(%s)' % (self.t,)

    def __str__(self) -> str:
        return '<%s>' % (self.t,)

    def __format__(self, spec: str) -> str:
        return str(self)

    def to_bytes(self, length: int = 1, byteorder: str = 'big', *, signed: bool = False) -> Any:
        """non-negative value < 256**length (else OverflowError), as SymBytes"""
        from .codecs7 import _divmod
        from .symbytes import SymBytes
        if signed:
            raise Unsupported('SymInt.to_bytes(signed=True)')
        if (self < 0) | (self >= 256 ** length):
            raise OverflowError('int too big to convert')
        out = []
        x: Any = self
        for _ in range(length):
            x, r = _divmod(x, 256)[:2]
            out.append(r)
        if byteorder == 'big':
            out.reverse()
        return SymBytes(out, 'bytes')

    def eval(self, model: Any) -> int:
        return model.eval(self.t, model_completion=True).as_long()


numbers.Integral.register(SymInt)


class SymUid(SymInt):
    """An integer used as a key of built-in sets/dicts: constant hash makes
    CPython fall back on ``__eq__`` (a forking SymBool) for every probe.
    All members of such a container must be SymUid."""
    __slots__ = ()
    HASH = 7919

    def _mk(self, t: Any) -> 'SymInt':
        return SymUid(t)

    def __hash__(self) -> int:
        return SymUid.HASH

"""Differential self-test of the engine's models against the real
implementations, on concrete inputs (no solver involved: proxies whose items
are all concrete take the same code paths as symbolic ones, with Python bools
in place of z3 terms).

* every regex literal compiled in /repo/pymap (harvested from the AST) is run
  through the sym matcher and the real ``re`` on all strings of length <= 3
  over a 12-symbol alphabet plus literals harvested from /repo/test;
* SymBytes/SymStr methods against bytes/str methods on the same corpus.
"""
from __future__ import annotations

import ast
import glob
import itertools
import re
import sys

from . import symre
from .symbytes import SymBytes, SymStr, lift

ALPHA = b'a1 "\\\r\n{}+*)'


def harvest_patterns() -> list:
    pats = []
    for path in glob.glob('/repo/pymap/**/*.py', recursive=True):
        if '/redis/' in path or '/admin/' in path:
            continue
        try:
            tree = ast.parse(open(path).read())
        except SyntaxError:
            continue
        for node in ast.walk(tree):
            if isinstance(node, ast.Call) and isinstance(node.func, ast.Attribute) \
                    and node.func.attr == 'compile' and isinstance(node.func.value, ast.Name) \
                    and node.func.value.id == 're' and node.args:
                try:
                    pat = ast.literal_eval(node.args[0])
                except Exception:
                    continue
                flags = 0
                if len(node.args) > 1:
                    src = ast.unparse(node.args[1])
                    for name in ('I', 'IGNORECASE', 'A', 'ASCII', 'S', 'DOTALL', 'M', 'MULTILINE'):
                        if re.search(r'\bre\.%s\b' % name, src):
                            flags |= getattr(re, name)
                pats.append((pat, flags, path))
    return pats


def harvest_literals() -> tuple[list, list]:
    bs, ss = set(), set()
    for path in glob.glob('/repo/test/**/*.py', recursive=True):
        try:
            tree = ast.parse(open(path).read())
        except SyntaxError:
            continue
        for node in ast.walk(tree):
            if isinstance(node, ast.Constant):
                if isinstance(node.value, bytes) and len(node.value) <= 60:
                    bs.add(node.value)
                elif isinstance(node.value, str) and len(node.value) <= 60:
                    ss.add(node.value)
    return sorted(bs), sorted(ss)


def _mt(m):
    if m is None:
        return None
    n = m.re.groups
    return (m.span(), tuple(m.span(i) for i in range(1, n + 1)))


def main() -> int:
    pats = harvest_patterns()
    blits, slits = harvest_literals()
    corpus_b = [bytes(t) for k in range(0, 4) for t in itertools.product(ALPHA, repeat=k)]
    corpus_b = corpus_b[::3] + blits
    corpus_s = [b.decode('latin-1') for b in corpus_b[::2]] + slits
    nchecks = 0
    bad = 0
    skipped = []
    for pat, flags, path in pats:
        try:
            sp = symre.compile(pat, flags)
        except Exception as exc:
            skipped.append((pat, repr(exc)))
            continue
        real = re.compile(pat, flags)
        corpus = corpus_b if isinstance(pat, bytes) else corpus_s
        try:
            for s in corpus:
                sym = lift(s)
                for meth in ('match', 'search', 'fullmatch'):
                    a = _mt(getattr(sp, meth)(sym))
                    b = _mt(getattr(real, meth)(s))
                    nchecks += 1
                    if a != b:
                        bad += 1
                        if bad < 10:
                            print('REGEX MISMATCH', pat, flags, meth, repr(s), a, b)
                a = [_mt(m) for m in sp.finditer(sym)]
                b = [_mt(m) for m in real.finditer(s)]
                nchecks += 1
                if a != b:
                    bad += 1
                    if bad < 10:
                        print('REGEX MISMATCH finditer', pat, repr(s), a, b)
        except symre.Unsupported as exc:  # type: ignore
            skipped.append((pat, str(exc)))
    # sequence methods
    seps = [b' ', b'\r\n', b'a', b'"', b'\\']
    for s in corpus_b[::5]:
        sym = SymBytes(list(s))
        for sep in seps:
            for name, args in (('find', (sep,)), ('rfind', (sep,)), ('split', (sep,)),
                               ('partition', (sep,)), ('rpartition', (sep,)),
                               ('startswith', (sep,)), ('endswith', (sep,)),
                               ('replace', (sep, b'XY')), ('count', (sep,)),
                               ('rsplit', (sep, 1)), ('split', (sep, 1))):
                a = getattr(sym, name)(*args)
                b = getattr(s, name)(*args)
                a = _norm(a)
                nchecks += 1
                if a != b:
                    bad += 1
                    if bad < 20:
                        print('BYTES MISMATCH', name, repr(s), args, a, b)
        for name in ('strip', 'lstrip', 'rstrip', 'upper', 'lower', 'capitalize', 'split', 'isdigit'):
            a = _norm(getattr(sym, name)())
            b = getattr(s, name)()
            nchecks += 1
            if a != b:
                bad += 1
                if bad < 20:
                    print('BYTES MISMATCH', name, repr(s), a, b)
        for other in (b'a', b'a1', b'', b'\r'):
            for op in ('__lt__', '__le__', '__gt__', '__ge__', '__eq__'):
                a = _norm(getattr(sym, op)(other))
                b = getattr(s, op)(other)
                nchecks += 1
                if a != b:
                    bad += 1
                    print('BYTES CMP MISMATCH', op, repr(s), other, a, b)
    # codecs
    for s in corpus_b[::2] + [bytes([x, y]) for x in (0x41, 0xc2, 0xe0, 0xed, 0xf0, 0xf4, 0xff, 0x80)
                              for y in (0x41, 0x80, 0xbf, 0xa0)] + \
            [bytes([0xe2, 0x82, 0xac]), bytes([0xed, 0xa0, 0x80]), bytes([0xf0, 0x9f, 0x98, 0x80]),
             bytes([0xe0, 0x80, 0x80]), bytes([0xf4, 0x90, 0x80, 0x80]), bytes([0xc0, 0x80])]:
        for enc in ('ascii', 'utf-8', 'latin-1'):
            from .symbytes import decode_items
            try:
                b = s.decode(enc)
            except UnicodeDecodeError:
                b = 'ERR'
            try:
                a = _norm(decode_items(list(s), enc))
            except UnicodeDecodeError:
                a = 'ERR'
            nchecks += 1
            if a != b:
                bad += 1
                print('DECODE MISMATCH', enc, s, repr(a), repr(b))
    from .symbytes import encode_items
    for cps in ([0x41], [0x80], [0x7ff], [0x800], [0xffff], [0x10000], [0x10ffff], [0xd800], [0x20ac, 0x41]):
        st = ''.join(chr(c) for c in cps)
        for enc in ('ascii', 'utf-8', 'latin-1'):
            try:
                b = st.encode(enc)
            except UnicodeEncodeError:
                b = 'ERR'
            try:
                a = _norm(encode_items(list(cps), enc))
            except UnicodeEncodeError:
                a = 'ERR'
            nchecks += 1
            if a != b:
                bad += 1
                print('ENCODE MISMATCH', enc, cps, repr(a), repr(b))
    # UTF-7 / UTF-16-BE / base64 models vs the real codecs (exhaustive small corpora)
    from .codecs7 import utf7_decode, utf7_encode, utf16be_encode, b64encode_items, b64decode_items
    import base64
    a7 = b'+-A/a,\xff&\t'
    for kk in range(0, 6):
        for t in itertools.product(a7, repeat=kk):
            s7 = bytes(t)
            try:
                b = s7.decode('utf-7')
            except UnicodeDecodeError:
                b = 'ERR'
            try:
                a = ''.join(chr(c) for c in utf7_decode(list(s7)))
            except UnicodeDecodeError:
                a = 'ERR'
            nchecks += 1
            if a != b:
                bad += 1
                if bad < 30:
                    print('UTF7 DECODE MISMATCH', s7, repr(a), repr(b))
    for pre in (b'+AOk', b'+2D3eAA', b'+2D0', b'+3gA', b'+AAEAAg', b'+AOkA6Q'):
        for suf in (b'-', b'', b'-x', b'x', b'+', b'\xff', b'A', b'AA', b'AAA'):
            s7 = pre + suf
            try:
                b = s7.decode('utf-7')
            except UnicodeDecodeError:
                b = 'ERR'
            try:
                a = ''.join(chr(c) for c in utf7_decode(list(s7)))
            except UnicodeDecodeError:
                a = 'ERR'
            nchecks += 1
            if a != b:
                bad += 1
                print('UTF7 DECODE MISMATCH', s7, repr(a), repr(b))
    cps7 = [0x41, 0x2b, 0x2d, 0x09, 0x01, 0xe9, 0x7e, 0x5c, 0x10000, 0x20ac, 0x2f, 0x00, 0x10ffff]
    for kk in range(0, 5):
        for t in itertools.product(cps7, repeat=kk):
            st = ''.join(chr(c) for c in t)
            b = st.encode('utf-7')
            a = bytes(utf7_encode(list(t)))
            nchecks += 1
            if a != b:
                bad += 1
                if bad < 30:
                    print('UTF7 ENCODE MISMATCH', t, a, b)
            if kk <= 3:
                a = bytes(utf16be_encode(list(t)))
                b = st.encode('utf-16-be')
                nchecks += 1
                if a != b:
                    bad += 1
                    print('UTF16BE MISMATCH', t, a, b)
    for kk in range(0, 5):
        for t in itertools.product([0, 1, 0x41, 0xff, 0x80, 0x3f], repeat=kk):
            raw = bytes(t)
            a = bytes(b64encode_items(list(raw)))
            b = base64.b64encode(raw)
            nchecks += 1
            if a != b:
                bad += 1
                print('B64ENC MISMATCH', raw, a, b)
            a = bytes(b64decode_items(list(b)))
            nchecks += 1
            if a != raw:
                bad += 1
                print('B64DEC MISMATCH', b, a, raw)
    from .symbytes import parse_int
    for t in itertools.chain.from_iterable(itertools.product(b'1 _+-0a\t', repeat=kk) for kk in range(0, 5)):
        raw = bytes(t)
        try:
            b = int(raw)
        except ValueError:
            b = 'ERR'
        try:
            a = parse_int(list(raw))
        except ValueError:
            a = 'ERR'
        nchecks += 1
        if a != b:
            bad += 1
            if bad < 40:
                print('INT MISMATCH', raw, a, b)
    # saslprep: the loader's facade claims "ASCII maps to itself, exactly the ASCII control characters are prohibited"
    try:
        from pysasl.prep import saslprep
    except ImportError:
        saslprep = None
    if saslprep is not None:
        for t in itertools.chain.from_iterable(itertools.product(range(128), repeat=kk) for kk in (0, 1, 2)):
            s_ = ''.join(map(chr, t))
            try:
                real = saslprep(s_)
            except ValueError:
                real = 'ERR'
            model = 'ERR' if any(c <= 0x1f or c == 0x7f for c in t) else s_
            nchecks += 1
            if real != model:
                bad += 1
                if bad < 40:
                    print('SASLPREP MISMATCH', repr(s_), repr(real), repr(model))
        # B.1 "mapped to nothing": the facade drops exactly these characters
        import stringprep
        for cp in range(0x80, 0x110000):
            if stringprep.in_table_b1(chr(cp)):
                nchecks += 1
                try:
                    r_ = saslprep('a' + chr(cp) + 'b')
                except ValueError:
                    r_ = 'ERR'
                if r_ != 'ab':
                    bad += 1
                    print('SASLPREP B.1 MISMATCH', hex(cp), repr(r_))
        # base64 decoding with trailing line ending (discarded characters)
        for t in itertools.product(range(256), repeat=2):
            raw = bytes(t)
            enc = base64.b64encode(raw) + b'\r\n'
            nchecks += 1
            if bytes(b64decode_items(list(enc))) != base64.b64decode(enc):
                bad += 1
                print('B64DEC+CRLF MISMATCH', enc)
        # lenient and strict decoding of malformed input: junk characters, padding in every amount
        import binascii
        from .core import Unsupported as _Uns
        for L in range(0, 6):
            for t in itertools.product('Ab0+/=!\r ', repeat=L):
                sb = ''.join(t).encode()
                for v in (False, True):
                    try:
                        want = base64.b64decode(sb, validate=v)
                    except binascii.Error:
                        want = 'ERR'
                    try:
                        got = bytes(b64decode_items(list(sb), v))
                    except binascii.Error:
                        got = 'ERR'
                    except _Uns:
                        continue
                    nchecks += 1
                    if got != want:
                        bad += 1
                        print('B64DEC MALFORMED MISMATCH', sb, v, got, want)
    print('difftest: %d patterns (%d skipped as unsupported), %d comparisons, %d mismatches'
          % (len(pats), len(skipped), nchecks, bad))
    for pat, why in skipped:
        print('  skipped', pat, why)
    return 1 if bad else 0


def _norm(a):
    from .core import SymBool
    import z3
    if isinstance(a, SymBool):
        t = z3.simplify(a.t)
        return True if z3.is_true(t) else False if z3.is_false(t) else a
    if isinstance(a, SymBytes):
        return bytes(a.items)
    if isinstance(a, SymStr):
        return a.lower_concrete()
    if isinstance(a, (list, tuple)):
        return type(a)(_norm(x) for x in a)
    return a


if __name__ == '__main__':
    sys.exit(main())

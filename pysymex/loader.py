"""Import hook: every ``pymap.*`` module is compiled at check time from the
current /repo source, after a small semantics-preserving AST transform, and
executed with sym-aware ``__builtins__``.

Rule: concrete in, real objects out.  Every helper falls through to the
original operation when no operand is symbolic.
"""
from __future__ import annotations

import ast
import builtins
import hashlib
import importlib.abc
import importlib.machinery
import io as _io
import base64 as _base64
import sys
import types
from typing import Any

import z3

from . import symre
from .core import (SymInt, SymBool, SymUid, Unsupported, is_sym, cur, Engine)
from .symbytes import (SymBytes, SymStr, _SymSeq, any_sym, lift, sym_format,
                       parse_int, render_int, items_of, decode_items,
                       encode_items)

import os as _os_env
REPO = _os_env.environ.get('VERIF_REPO') or '/repo'

# ------------------------------------------------------------------ builtins
_real_bytes = bytes
_real_str = str
_real_int = int


class _BytesMeta(type):
    def __instancecheck__(cls, x: Any) -> bool:
        return isinstance(x, _real_bytes) or \
            (isinstance(x, SymBytes) and x.kind == 'bytes')

    def __subclasscheck__(cls, sub: Any) -> bool:
        return issubclass(sub, _real_bytes)


class _bytes(bytes, metaclass=_BytesMeta):
    def __new__(cls, *a: Any, **k: Any) -> Any:
        if a:
            x = a[0]
            if isinstance(x, SymBytes):
                if x._items is None:
                    return x  # lazily rendered: do not force
                if x.is_concrete():
                    return _real_bytes(x.items)
                return SymBytes(x.items, 'bytes')
            if isinstance(x, SymStr):
                enc = a[1] if len(a) > 1 else k.get('encoding')
                err = a[2] if len(a) > 2 else k.get('errors', 'strict')
                if enc is None:
                    raise TypeError('string argument without an encoding')
                return x.encode(enc, err)
            if isinstance(x, SymInt):
                return _real_bytes(x.__index__())
            if isinstance(x, (list, tuple)) and any(is_sym(i) for i in x):
                return SymBytes(list(x), 'bytes')
            if not isinstance(x, (_real_bytes, bytearray, memoryview, str, int)) \
                    and hasattr(type(x), '__bytes__'):
                r = x.__bytes__()
                if isinstance(r, SymBytes):
                    return r if r.kind == 'bytes' or r._items is None else SymBytes(r.items, 'bytes')
                return r
            if hasattr(x, '__iter__') and not isinstance(
                    x, (_real_bytes, bytearray, memoryview, str)):
                lst = list(x)
                if any(is_sym(i) for i in lst):
                    return SymBytes(lst, 'bytes')
                return _real_bytes(lst)
        return _real_bytes(*a, **k)


class _BytearrayMeta(type):
    def __instancecheck__(cls, x: Any) -> bool:
        return isinstance(x, bytearray) or \
            (isinstance(x, SymBytes) and x.kind == 'bytearray')


class _bytearray(bytearray, metaclass=_BytearrayMeta):
    def __new__(cls, *a: Any, **k: Any) -> Any:
        if not _symbolic_mode[0]:
            if a and isinstance(a[0], SymBytes):
                return SymBytes(a[0].items, 'bytearray')
            return bytearray(*a, **k)
        # symbolic mode: a mutable proxy, because symbolic data may arrive later
        if not a:
            return SymBytes([], 'bytearray')
        x = a[0]
        if isinstance(x, SymBytes):
            return SymBytes(x.items, 'bytearray')
        if isinstance(x, (list, tuple)):
            return SymBytes(list(x), 'bytearray')
        return SymBytes(list(bytearray(*a, **k)), 'bytearray')


class _MVMeta(type):
    def __instancecheck__(cls, x: Any) -> bool:
        return isinstance(x, memoryview) or \
            (isinstance(x, SymBytes) and x.kind == 'memoryview')


class _memoryview(metaclass=_MVMeta):
    def __new__(cls, x: Any) -> Any:
        if isinstance(x, SymBytes):
            return SymBytes(x.items, 'memoryview')
        return memoryview(x)


class _IntMeta(type):
    def __instancecheck__(cls, x: Any) -> bool:
        return isinstance(x, (_real_int, SymInt))

    def __subclasscheck__(cls, sub: Any) -> bool:
        return issubclass(sub, _real_int) or issubclass(sub, SymInt)


class _int(int, metaclass=_IntMeta):
    def __new__(cls, x: Any = 0, *a: Any, **k: Any) -> Any:
        if isinstance(x, SymInt):
            return x
        if isinstance(x, SymBool):
            return SymInt(z3.If(x.t, 1, 0))
        if isinstance(x, _SymSeq):
            if x.is_concrete():
                return _real_int(x.lower_concrete(), *a, **k)
            if a or k:
                raise Unsupported('int(sym, base)')
            return parse_int(x.items)
        return _real_int(x, *a, **k)


class _StrMeta(type):
    def __instancecheck__(cls, x: Any) -> bool:
        return isinstance(x, (_real_str, SymStr))

    def __subclasscheck__(cls, sub: Any) -> bool:
        return issubclass(sub, _real_str)


class _str(str, metaclass=_StrMeta):
    def __new__(cls, *a: Any, **k: Any) -> Any:
        if a:
            x = a[0]
            if isinstance(x, SymStr):
                return x
            if isinstance(x, SymBytes):
                if len(a) > 1 or k:
                    enc = a[1] if len(a) > 1 else k.get('encoding', 'utf-8')
                    err = a[2] if len(a) > 2 else k.get('errors', 'strict')
                    return x.decode(enc, err)
                return _real_str(x)
            if isinstance(x, SymInt) and len(a) == 1:
                return SymStr(render_int(x))
            if len(a) == 1 and not k and not isinstance(x, _real_str) \
                    and type(x).__str__ is not object.__str__:
                r = type(x).__str__(x)
                if isinstance(r, SymStr):
                    return r
                return r
        return _real_str(*a, **k)

    @staticmethod
    def maketrans(*a: Any) -> Any:
        return _real_str.maketrans(*a)


def _chr(x: Any) -> Any:
    if isinstance(x, SymInt):
        return SymStr([x])
    return chr(x)


def _ord(x: Any) -> Any:
    if isinstance(x, _SymSeq):
        if len(x) != 1:
            raise TypeError('ord() expected a character')
        return x.items[0]
    return ord(x)


def _scan_contains(container: Any, x: Any) -> Any:
    """membership by symbolic equality; one merged (non-forking) disjunction
    when every comparison yields a plain term"""
    conds = []
    for e in container:
        c = (x == e)
        if c is NotImplemented or c is False:
            continue
        if c is True:
            return True
        if isinstance(c, SymBool):
            conds.append(c.t)
        elif c:
            return True
    if not conds:
        return False
    return SymBool(z3.Or(*conds) if len(conds) > 1 else conds[0])


class _FrozensetMeta(type):
    def __instancecheck__(cls, x: Any) -> bool:
        return isinstance(x, frozenset)


_symbolic_mode = [False]


def _len(x: Any) -> Any:
    return len(x)


def _hash(x: Any) -> int:
    return hash(x)


def _min(*a: Any, **k: Any) -> Any:
    if len(a) == 2 and not k and (is_sym(a[0]) or is_sym(a[1])) \
            and isinstance(a[0], (int, SymInt)) and isinstance(a[1], (int, SymInt)):
        x, y = a
        from .core import _it
        return type(x if is_sym(x) else y)(z3.If(_it(y) < _it(x), _it(y), _it(x)))
    return min(*a, **k)


def _max(*a: Any, **k: Any) -> Any:
    if len(a) == 2 and not k and (is_sym(a[0]) or is_sym(a[1])) \
            and isinstance(a[0], (int, SymInt)) and isinstance(a[1], (int, SymInt)):
        x, y = a
        from .core import _it
        return type(x if is_sym(x) else y)(z3.If(_it(y) > _it(x), _it(y), _it(x)))
    return max(*a, **k)


class SymRange:
    """range(lo, hi) with symbolic ends (step 1), captured for later
    symbolic membership tests; iterating concretises (bounded)."""
    _sym = True

    def __init__(self, lo: Any, hi: Any) -> None:
        self.start = lo
        self.stop = hi
        self.step = 1

    def __contains__(self, x: Any) -> Any:
        return bool((x >= self.start) & (x < self.stop))

    def contains(self, x: Any) -> Any:
        return (x >= self.start) & (x < self.stop)

    def __iter__(self) -> Any:
        lo = self.start
        hi = self.stop
        if is_sym(hi - lo):
            n = cur().concretize((hi - lo).t, limit=SymRange.ITER_LIMIT)
        else:
            n = hi - lo
        for i in range(max(0, n)):
            yield lo + i

    ITER_LIMIT = 12

    def __len__(self) -> int:
        d = self.stop - self.start
        if is_sym(d):
            d = cur().concretize(d.t, limit=SymRange.ITER_LIMIT)
        return max(0, d)


class _RangeMeta(type):
    def __instancecheck__(cls, x: Any) -> bool:
        return isinstance(x, (range, SymRange))


class _range(metaclass=_RangeMeta):
    def __new__(cls, *a: Any) -> Any:
        if any(is_sym(x) for x in a):
            if len(a) == 1:
                return SymRange(0, a[0])
            if len(a) == 2:
                return SymRange(a[0], a[1])
            raise Unsupported('range with symbolic step')
        return range(*a)



class SymDict(dict):
    """dict whose probes fall back on symbolic equality (forking) when the
    probe or any stored key is symbolic; concrete use takes the C path."""
    __slots__ = ('_symkeys',)

    def __init__(self, *a: Any, **k: Any) -> None:
        dict.__init__(self)
        self._symkeys = False
        if a or k:
            self.update(*a, **k)

    def _need_scan(self, key: Any) -> bool:
        return self._symkeys or is_sym(key)

    def _scan(self, key: Any) -> Any:
        for k in dict.keys(self):
            c = (k == key)
            if c is NotImplemented or c is False:
                continue
            if c:
                return k
        return _MISSING

    def __getitem__(self, key: Any) -> Any:
        if self._need_scan(key):
            k = self._scan(key)
            if k is _MISSING:
                if hasattr(type(self), '__missing__'):
                    return type(self).__missing__(self, key)  # type: ignore
                raise KeyError(key)
            return dict.__getitem__(self, _Id(k))
        return dict.__getitem__(self, key)

    def __setitem__(self, key: Any, value: Any) -> None:
        if self._need_scan(key):
            k = self._scan(key)
            if k is not _MISSING:
                dict.__setitem__(self, _Id(k), value)
                return
            if is_sym(key):
                self._symkeys = True
            dict.__setitem__(self, _Id(key) if is_sym(key) else key, value)
            return
        dict.__setitem__(self, key, value)

    def __delitem__(self, key: Any) -> None:
        if self._need_scan(key):
            k = self._scan(key)
            if k is _MISSING:
                raise KeyError(key)
            dict.__delitem__(self, _Id(k))
            return
        dict.__delitem__(self, key)

    def __contains__(self, key: Any) -> bool:
        if self._need_scan(key):
            return self._scan(key) is not _MISSING
        return dict.__contains__(self, key)

    def get(self, key: Any, default: Any = None) -> Any:
        if self._need_scan(key):
            k = self._scan(key)
            return default if k is _MISSING else dict.__getitem__(self, _Id(k))
        return dict.get(self, key, default)

    def setdefault(self, key: Any, default: Any = None) -> Any:
        if self._need_scan(key):
            k = self._scan(key)
            if k is not _MISSING:
                return dict.__getitem__(self, _Id(k))
            self[key] = default
            return default
        return dict.setdefault(self, key, default)

    def pop(self, key: Any, *default: Any) -> Any:
        if self._need_scan(key):
            k = self._scan(key)
            if k is _MISSING:
                if default:
                    return default[0]
                raise KeyError(key)
            return dict.pop(self, _Id(k))
        return dict.pop(self, key, *default)

    def update(self, *a: Any, **k: Any) -> None:  # type: ignore
        for key, v in dict(*a, **k).items():
            self[key] = v

    def copy(self) -> 'SymDict':
        d = SymDict()
        for k in dict.keys(self):
            dict.__setitem__(d, k, dict.__getitem__(self, k))
        d._symkeys = self._symkeys
        return d

    def keys(self) -> Any:  # unwrap identity keys
        if not self._symkeys:
            return dict.keys(self)
        return [k.obj if isinstance(k, _Id) else k for k in dict.keys(self)]

    def items(self) -> Any:
        if not self._symkeys:
            return dict.items(self)
        return [(k.obj if isinstance(k, _Id) else k, v) for k, v in dict.items(self)]

    def __iter__(self) -> Any:
        return iter(self.keys())

    def __reduce__(self) -> Any:
        return (dict, (dict(self),))


class _Id:
    """identity-hashed wrapper storing a symbolic key inside a real dict;
    compares equal only to the very same key object, but forwards symbolic
    equality for scans"""
    __slots__ = ('obj',)

    def __new__(cls, obj: Any) -> Any:
        if not is_sym(obj):
            return obj
        self = object.__new__(cls)
        self.obj = obj
        return self

    def __hash__(self) -> int:
        return id(self.obj)

    def __eq__(self, o: Any) -> Any:
        if isinstance(o, _Id):
            return self.obj is o.obj
        return self.obj == o


_MISSING = object()


class _B64Token:
    """result of base64.b64encode(symbolic): an opaque token when only
    ``.decode()`` is asked for (dict-key use in pymap.mime), the exact
    encoding as soon as anything else looks at it"""
    _sym = True

    def __init__(self, tok: str, src: Any) -> None:
        self.tok = tok
        self.src = src
        self._exact: Any = None

    def decode(self, *a: Any) -> str:
        return self.tok

    def exact(self) -> Any:
        if self._exact is None:
            from .codecs7 import b64encode_items
            self._exact = SymBytes(b64encode_items(self.src.items), 'bytes')
        return self._exact

    def __getattr__(self, name: str) -> Any:
        if name.startswith('__'):
            raise AttributeError(name)
        return getattr(self.exact(), name)

    def __bytes__(self) -> Any:
        return self.exact()

    def __len__(self) -> int:
        return len(self.exact())

    def __eq__(self, o: Any) -> Any:
        return self.exact() == o

    def __hash__(self) -> int:
        return hash(self.tok)


_b64_table: dict[str, Any] = {}


def _b64encode(x: Any, *a: Any, **k: Any) -> Any:
    if isinstance(x, SymBytes):
        if x.is_concrete():
            return _base64.b64encode(_real_bytes(x.items), *a, **k)
        if a or k:
            raise Unsupported('b64encode altchars on symbolic data')
        tok = '\x00symb64:%d' % len(_b64_table)
        src = SymBytes(x.items, 'bytes')
        _b64_table[tok] = src
        return _B64Token(tok, src)
    return _base64.b64encode(x, *a, **k)


def _b64decode(x: Any, *a: Any, **k: Any) -> Any:
    if isinstance(x, str) and x in _b64_table:
        return _b64_table[x]
    if isinstance(x, _B64Token):
        return x.src
    if isinstance(x, (SymBytes, SymStr)):
        if x.is_concrete():
            return _base64.b64decode(x.lower_concrete(), *a, **k)
        from .codecs7 import b64decode_items
        if k.get('altchars') is not None or len(a) > 1 or (a and a[0] is not None):
            raise Unsupported('base64.b64decode with altchars on symbolic data')
        return SymBytes(b64decode_items(x.items, bool(k.get('validate', False))), 'bytes')
    return _base64.b64decode(x, *a, **k)



class SymRangeSet:
    """frozenset(<symbolic ranges / numbers>) kept as a union of intervals;
    membership is a z3 term, intersection with a real set filters its members
    (forking per member).  Never enumerates a symbolic range."""
    _sym = True

    def __init__(self, parts: list) -> None:
        self.parts = parts  # SymRange | range | int | SymInt

    def contains_term(self, x: Any) -> Any:
        from .core import OR, B
        conds = []
        for p in self.parts:
            if isinstance(p, (SymRange, range)):
                if isinstance(p, range) and p.step != 1:
                    raise Unsupported('stepped range in symbolic set')
                conds.append(B(x >= p.start) & B(x < p.stop))
            else:
                conds.append(B(x == p))
        return OR(*conds)

    def __contains__(self, x: Any) -> bool:
        return bool(self.contains_term(x))

    def __and__(self, other: Any) -> Any:
        if isinstance(other, SymRangeSet):
            raise Unsupported('SymRangeSet & SymRangeSet')
        return frozenset(m for m in other if self.contains_term(m))

    __rand__ = __and__

    def __bool__(self) -> bool:
        for p in self.parts:
            if isinstance(p, (SymRange, range)):
                if p.start < p.stop:
                    return True
            else:
                return True
        return False

    def __iter__(self) -> Any:
        for p in self.parts:
            if isinstance(p, (SymRange, range)):
                yield from p
            else:
                yield p

    def __hash__(self) -> int:
        raise Unsupported('hash(SymRangeSet)')


class SymChain:
    """chain.from_iterable over parts of which some are symbolic ranges"""
    _sym = True

    def __init__(self, parts: list) -> None:
        self.parts = parts

    def __iter__(self) -> Any:
        for p in self.parts:
            yield from p


class _FrozensetMeta2(type):
    def __instancecheck__(cls, x: Any) -> bool:
        return isinstance(x, (frozenset, SymRangeSet))


class _frozenset(frozenset, metaclass=_FrozensetMeta2):
    def __new__(cls, *a: Any) -> Any:
        if a:
            x = a[0]
            if isinstance(x, SymRange):
                return SymRangeSet([x])
            if isinstance(x, SymChain):
                parts: list = []
                for p in x.parts:
                    if isinstance(p, (SymRange, range)):
                        if isinstance(p, range) and len(p) <= 64:
                            parts.extend(p)
                        else:
                            parts.append(p)
                    else:
                        parts.extend(p)
                return SymRangeSet(parts)
            if isinstance(x, SymRangeSet):
                return x
        return frozenset(*a)


def _iter(*a: Any) -> Any:
    if len(a) == 1 and isinstance(a[0], (SymRange, SymChain)):
        return a[0]
    return iter(*a)


import itertools as _itertools


class _chain(_itertools.chain):
    @classmethod
    def from_iterable(cls, it: Any) -> Any:
        parts = list(it)
        if any(isinstance(p, SymRange) for p in parts):
            return SymChain(parts)
        return _itertools.chain.from_iterable(parts)


_itertools_facade = types.ModuleType('itertools')
_itertools_facade.__dict__.update(vars(_itertools))
_itertools_facade.chain = _chain  # type: ignore


import datetime as _datetime_mod


class _DTMeta(type):
    def __instancecheck__(cls, x: Any) -> bool:
        return isinstance(x, _datetime_mod.datetime)

    def __subclasscheck__(cls, sub: Any) -> bool:
        return issubclass(sub, _datetime_mod.datetime)


class _datetime(_datetime_mod.datetime, metaclass=_DTMeta):
    """datetime whose strptime() on symbolic text is an environment stub:
    it either returns some datetime or raises ValueError (its documented
    failure), chosen by a fresh symbolic Boolean"""

    @classmethod
    def strptime(cls, s: Any, fmt: str) -> Any:
        if isinstance(s, SymStr) and not s.is_concrete():
            eng = cur()
            if eng.flip('strptime_ok_%d' % eng.nfresh):
                tz = _datetime_mod.timezone.utc if '%z' in fmt else None
                return _datetime_mod.datetime(2020, 1, 1, tzinfo=tz)
            raise ValueError('time data does not match format (stub)')
        if isinstance(s, SymStr):
            s = s.lower_concrete()
        return _datetime_mod.datetime.strptime(s, fmt)


_datetime_facade = types.ModuleType('datetime')
_datetime_facade.__dict__.update(vars(_datetime_mod))
_datetime_facade.datetime = _datetime  # type: ignore


import secrets as _secrets_mod


def _compare_digest(a: Any, b: Any) -> Any:
    if is_sym(a) or is_sym(b):
        return a == b          # timing-safe comparison == equality
    return _secrets_mod.compare_digest(a, b)


_secrets_facade = types.ModuleType('secrets')
_secrets_facade.__dict__.update(vars(_secrets_mod))
_secrets_facade.compare_digest = _compare_digest  # type: ignore


import zlib as _zlib_mod


def _adler32(data: Any, value: Any = 1) -> Any:
    """zlib.adler32 over symbolic bytes: a = 1 + sum(bytes), b = sum of the
    running a, both mod 65521; returns b * 65536 + a"""
    if not is_sym(data) and not is_sym(value):
        return _zlib_mod.adler32(data, value)
    from .codecs7 import _divmod
    items = data.items if is_sym(data) else list(_real_bytes(data))
    if is_sym(value) or value != 1:
        b, a = _divmod(value, 65536)[:2] if is_sym(value) else (value >> 16, value & 0xffff)
    else:
        a, b = 1, 0
    # upper bounds decide where a reduction mod 65521 can change anything
    amax = 65520 if is_sym(a) else a
    bmax = 65520 if is_sym(b) else b

    def red(x: Any) -> Any:
        return _divmod(x, 65521)[1] if is_sym(x) else x % 65521
    for c in items:
        a = a + c
        amax += 255
        if amax >= 65521:
            a = red(a)
            amax = 65520
        b = b + a
        bmax += amax
        if bmax >= 65521:
            b = red(b)
            bmax = 65520
    return b * 65536 + a


_zlib_facade = types.ModuleType('zlib')
_zlib_facade.__dict__.update(vars(_zlib_mod))
_zlib_facade.adler32 = _adler32  # type: ignore


import codecs as _codecs_mod


def _codecs_lookup(name: Any) -> Any:
    if isinstance(name, SymStr):
        from .symbytes import concretize_codec
        return _codecs_mod.lookup(concretize_codec(name))
    return _codecs_mod.lookup(name)


_codecs_facade = types.ModuleType('codecs')
_codecs_facade.__dict__.update(vars(_codecs_mod))
_codecs_facade.lookup = _codecs_lookup  # type: ignore


import os as _os_mod
import posixpath as _pp_mod

FS_HOOK: list = [None]     # when set: object receiving every file-system call made by pymap modules


def _sym_path_join(a: Any, *p: Any) -> Any:
    """posixpath.join over possibly symbolic str (same algorithm as CPython's)"""
    if not (is_sym(a) or any(is_sym(x) for x in p)):
        return _pp_mod.join(a, *p)
    path = lift(a) if not is_sym(a) else a
    for b in p:
        b = lift(b) if not is_sym(b) else b
        if b.startswith('/'):
            path = b
        elif len(path) == 0 or path.endswith('/'):
            path = path + b
        else:
            path = path + '/' + b
    return path


def _sym_normpath(path: Any) -> Any:
    """posixpath.normpath over possibly symbolic str (same algorithm as CPython's)"""
    if not is_sym(path):
        return _pp_mod.normpath(path)
    if len(path) == 0:
        return '.'
    initial = 0
    if path.startswith('/'):
        initial = 2 if (path.startswith('//') and not path.startswith('///')) else 1
    new: list = []
    for comp in path.split('/'):
        if len(comp) == 0 or bool(comp == '.'):
            continue
        if not bool(comp == '..') or (not initial and not new) or (new and bool(new[-1] == '..')):
            new.append(comp)
        elif new:
            new.pop()
    out: Any = lift('/' * initial)
    for i, comp in enumerate(new):
        if i:
            out = out + '/'
        out = out + comp
    if len(out) == 0:
        return '.'
    return out


def _sym_abspath(path: Any) -> Any:
    if not is_sym(path):
        return _pp_mod.abspath(path)
    if not path.startswith('/'):
        path = _sym_path_join(_os_mod.getcwd(), path)
    return _sym_normpath(path)


def _fs(name: str, real: Any) -> Any:
    def call(*a: Any, **k: Any) -> Any:
        h = FS_HOOK[0]
        if h is not None:
            return getattr(h, name)(*a, **k)
        return real(*a, **k)
    call.__name__ = name
    return call


_ospath_facade = types.ModuleType('posixpath')
_ospath_facade.__dict__.update(vars(_pp_mod))
_ospath_facade.join = _sym_path_join  # type: ignore
_ospath_facade.normpath = _sym_normpath  # type: ignore
_ospath_facade.abspath = _sym_abspath  # type: ignore
for _n in ('isdir', 'exists', 'isfile', 'getmtime'):
    setattr(_ospath_facade, _n, _fs('path_' + _n, getattr(_pp_mod, _n)))
_os_facade = types.ModuleType('os')
_os_facade.__dict__.update(vars(_os_mod))
_os_facade.path = _ospath_facade  # type: ignore
for _n in ('listdir', 'remove', 'rmdir', 'rename', 'unlink', 'mkdir', 'makedirs', 'walk', 'stat', 'utime', 'link'):
    setattr(_os_facade, _n, _fs(_n, getattr(_os_mod, _n)))


# environment stubs: when set, time.time() / asyncio.sleep() / NamedTemporaryFile inside pymap modules go here
ENV_HOOK: dict = {'clock': None, 'sleep': None}
import time as _time_mod
import asyncio as _asyncio_mod
import tempfile as _tempfile_mod

_time_facade = types.ModuleType('time')
_time_facade.__dict__.update(vars(_time_mod))
_time_facade.time = lambda: ENV_HOOK['clock']() if ENV_HOOK['clock'] is not None else _time_mod.time()  # type: ignore
_asyncio_facade = types.ModuleType('asyncio')
_asyncio_facade.__dict__.update(vars(_asyncio_mod))
_asyncio_facade.sleep = (lambda d, *a, **k: ENV_HOOK['sleep'](d) if ENV_HOOK['sleep'] is not None  # type: ignore
                         else _asyncio_mod.sleep(d, *a, **k))
_tempfile_facade = types.ModuleType('tempfile')
_tempfile_facade.__dict__.update(vars(_tempfile_mod))


def _named_temp(*a: Any, **k: Any) -> Any:
    h = FS_HOOK[0]
    if h is not None and hasattr(h, 'named_temp'):
        return h.named_temp(*a, **k)
    return _tempfile_mod.NamedTemporaryFile(*a, **k)


_tempfile_facade.NamedTemporaryFile = _named_temp  # type: ignore


# ---------------------------------------------------------------- unicodedata.normalize on symbolic text
# The normal form of a character matters to the code under test only through a small alphabet (path syntax: '.', '/',
# '\\', NUL).  Per symbolic character the model forks into: ASCII (unchanged in every form); one class per *pattern*
# of the normal form in which every character outside the alphabet is a wildcard ('..' for U+2025, '?/?' for the
# "care of" signs, '?.' for the digit-full-stop signs, ...) - the wildcards become fresh ASCII characters outside the
# alphabet; one class per length for normal forms that contain ASCII but nothing from the alphabet; and "kept as it is"
# for everything else (such characters never produce an ASCII character, alone or by composition with a neighbour).
# The tables are computed from this interpreter's unicodedata on first use.
UNICODE_RELEVANT = set('./\\\0')
_norm_cache: dict = {}


def _intervals(cps: list) -> list:
    out: list = []
    for cp in sorted(cps):
        if out and out[-1][1] == cp - 1:
            out[-1][1] = cp
        else:
            out.append([cp, cp])
    return out


def _norm_tables(form: str) -> Any:
    if form in _norm_cache:
        return _norm_cache[form]
    import unicodedata as _ud
    import collections
    pats: dict = collections.defaultdict(list)
    for cp in range(0x80, 0x110000):
        if 0xD800 <= cp <= 0xDFFF:
            continue
        c = chr(cp)
        n = _ud.normalize(form, c)
        if n == c or not any(ord(x) < 0x80 for x in n):
            continue
        pats[tuple(x if x in UNICODE_RELEVANT else None for x in n)].append(cp)
    tab = [(pat, _intervals(cps)) for pat, cps in sorted(pats.items(), key=lambda kv: (len(kv[0]), str(kv[0])))]
    _norm_cache[form] = tab
    return tab


def _sym_normalize(form: Any, s: Any) -> Any:
    import unicodedata as _ud
    if not is_sym(s):
        return _ud.normalize(form, s)
    if s.is_concrete():
        return _ud.normalize(form, s.lower_concrete())
    eng = cur()
    out: list = []
    for c in s.items:
        if not is_sym(c):
            out += [ord(x) for x in _ud.normalize(form, chr(c))]
            continue
        if bool(c < 0x80):
            out.append(c)
            continue
        done = False
        for pat, ivs in _norm_tables(str(form)):
            member = z3.Or(*[z3.And(c.t >= lo, c.t <= hi) if lo != hi else c.t == lo for lo, hi in ivs])
            if eng.branch(member):
                for x in pat:
                    if x is not None:
                        out.append(ord(x))
                    else:
                        w = eng.fresh_int('nf', 1, 0x7f)
                        for r in UNICODE_RELEVANT:
                            eng.add(w.t != ord(r))
                        out.append(w)
                done = True
                break
        if not done:
            out.append(c)
    return SymStr(out)


import unicodedata as _unicodedata_mod
_unicodedata_facade = types.ModuleType('unicodedata')
for _n in dir(_unicodedata_mod):
    if not _n.startswith('__'):
        setattr(_unicodedata_facade, _n, getattr(_unicodedata_mod, _n))
_unicodedata_facade.normalize = _sym_normalize  # type: ignore


_B1: list = []


def _b1_table() -> list:
    if not _B1:
        import stringprep
        _B1.extend(c for c in range(0x80, 0x110000) if stringprep.in_table_b1(chr(c)))
    return _B1


def _make_prep_facade() -> Any:
    """pysasl.prep with saslprep() exact on ASCII symbolic text: ASCII is mapped to itself, and exactly the ASCII
    control characters (RFC 3454 C.2.1: U+0000-001F, U+007F) are prohibited (difftest compares this with the real
    function on every ASCII string of length <= 2); for symbolic non-ASCII characters see the comment below"""
    import pysasl.prep as real
    fac = types.ModuleType('pysasl.prep')
    fac.__dict__.update(vars(real))

    def saslprep(source: Any, *a: Any, **k: Any) -> Any:
        if not is_sym(source):
            return real.saslprep(source, *a, **k)
        if source.is_concrete():
            return real.saslprep(source.lower_concrete(), *a, **k)
        kept: list = []
        for c in source.items:
            if is_sym(c):
                if bool(c > 0x7f):
                    if bool(SymBool(z3.Or(*[c.t == v for v in _b1_table()]))):
                        continue          # RFC 3454 B.1: mapped to nothing (exact; the table is read from stringprep)
                    # outside ASCII the other tables are not modelled: the documented contract is "a prepared string or
                    # ValueError" - both are explored (the character is kept as it is, an approximation of the mapping
                    # step; a counterexample that depends on it fails its replay and is reported as inconclusive)
                    if cur().flip('saslprep_prohibits_non_ascii'):
                        raise ValueError(source)
                    kept.append(c)
                    continue
                if bool(c <= 0x1f) or bool(c == 0x7f):
                    raise ValueError(source)
                kept.append(c)
            elif c > 0x7f:
                if c in _b1_table():
                    continue
                kept.append(c)       # approximation as above, for a concrete character next to symbolic ones
            elif c <= 0x1f or c == 0x7f:
                raise ValueError(source)
            else:
                kept.append(c)
        if len(kept) == len(source.items):
            return source
        return SymStr(kept)
    fac.saslprep = saslprep  # type: ignore
    return fac


_prep_facade: list = [None]


def _open(*a: Any, **k: Any) -> Any:
    h = FS_HOOK[0]
    if h is not None:
        return h.open(*a, **k)
    return open(*a, **k)

def _import(name: str, globals: Any = None, locals: Any = None,
            fromlist: Any = (), level: int = 0) -> Any:
    if level == 0:
        if name == 're':
            return symre
        if name == 'io' and fromlist:
            return _io_facade
        if name == 'base64':
            return _b64_facade
        if name == 'itertools':
            return _itertools_facade
        if name == 'datetime':
            return _datetime_facade
        if name == 'secrets':
            return _secrets_facade
        if name == 'zlib':
            return _zlib_facade
        if name == 'codecs':
            return _codecs_facade
        if name == 'os':
            return _os_facade
        if name == 'time':
            return _time_facade
        if name == 'asyncio' and not fromlist:
            return _asyncio_facade
        if name == 'tempfile':
            return _tempfile_facade
        if name == 'unicodedata':
            return _unicodedata_facade
        if name == 'pysasl.prep' and fromlist:
            if _prep_facade[0] is None:
                _prep_facade[0] = _make_prep_facade()
            return _prep_facade[0]
        if name == 'os.path':
            return _os_facade if not fromlist else _ospath_facade
    return builtins.__import__(name, globals, locals, fromlist, level)


class SymBytesIO(_io.BytesIO):
    """BytesIO whose write() accepts symbolic chunks."""

    def __init__(self, initial: Any = b'') -> None:
        super().__init__()
        self._chunks: list = []
        self._symbolic = False
        if initial:
            self.write(initial)

    def write(self, data: Any) -> int:
        if isinstance(data, SymBytes):
            if data.is_concrete():
                data = _real_bytes(data.items)
            else:
                self._symbolic = True
        self._chunks.append(data)
        if not self._symbolic:
            return super().write(data)
        return len(data)

    def getvalue(self) -> Any:
        if not self._symbolic:
            return super().getvalue()
        out: list = []
        for c in self._chunks:
            out.extend(items_of(c))
        return SymBytes(out, 'bytes')


_io_facade = types.ModuleType('io')
_io_facade.__dict__.update(vars(_io))
_io_facade.BytesIO = SymBytesIO  # type: ignore


_b64_facade = types.ModuleType('base64')
_b64_facade.__dict__.update(vars(_base64))
_b64_facade.b64encode = _b64encode  # type: ignore
_b64_facade.b64decode = _b64decode  # type: ignore


SYM_BUILTINS = dict(vars(builtins))
SYM_BUILTINS.update(
    bytes=_bytes, bytearray=_bytearray, memoryview=_memoryview, int=_int,
    str=_str, dict=SymDict, frozenset=_frozenset, iter=_iter, open=_open, chr=_chr, ord=_ord, min=_min, max=_max, range=_range,
    __import__=_import)


# ------------------------------------------------------------------ helpers
_STR_TYPES = (_real_bytes, bytearray, memoryview, _real_str)


def _h_method(obj: Any, name: str, *args: Any, **kw: Any) -> Any:
    """``obj.name(*args)`` where name is a bytes/str/dict method name."""
    if is_sym(obj):
        return getattr(obj, name)(*args, **kw)
    t = type(obj)
    if t in _STR_TYPES:
        if args and any_sym(args) or (
                name == 'join' and args and not isinstance(args[0], _STR_TYPES)):
            if name == 'join':
                parts = list(args[0])
                if any(is_sym(p) for p in parts):
                    return lift(obj).join(parts)
                return obj.join(parts)
            return getattr(lift(obj), name)(*args, **kw)
        return getattr(obj, name)(*args, **kw)
    if name in ('get', 'pop') and args and is_sym(args[0]) \
            and isinstance(obj, _MAPPINGS) and not _all_sym_keys(obj):
        for k in list(obj.keys()):
            c = (args[0] == k)
            if c is NotImplemented or c is False:
                continue
            if c:
                return obj.pop(k) if name == 'pop' else obj[k]
        if len(args) > 1:
            return args[1]
        if name == 'pop':
            raise KeyError(args[0])
        return None
    return getattr(obj, name)(*args, **kw)


import weakref as _weakref
import collections as _collections
# mapping types whose probes go through hash(): a symbolic key is found by symbolic equality instead
_MAPPINGS = (dict, _weakref.WeakValueDictionary, _weakref.WeakKeyDictionary, _collections.UserDict)


def _const_hash(x: Any) -> bool:
    """x is a symbolic value hashing to the engine's constant (not a concrete-valued one with its real hash)"""
    if not is_sym(x):
        return False
    try:
        return hash(x) == 7919
    except Unsupported:
        return False


def _all_sym_keys(d: Any) -> bool:
    # containers whose keys are all constant-hash Sym objects work natively
    for k in d:
        if not _const_hash(k):
            return False
    return True


def _h_mod(a: Any, b: Any) -> Any:
    if type(a) in (_real_bytes, _real_str) and any_sym(b):
        return sym_format(a, b)
    if isinstance(a, _SymSeq):
        return sym_format(a, b)
    if type(a) is _real_bytes:
        try:
            return a % b
        except TypeError as exc:
            if 'returned non-bytes' in str(exc):
                # an argument's __bytes__ produced symbolic bytes
                return sym_format(a, b)
            raise
    return a % b


def _h_in(x: Any, container: Any) -> Any:
    t = type(container)
    if t is SymRangeSet:
        return container.contains_term(x)
    if t in (set, frozenset, dict) or isinstance(container, _MAPPINGS):
        if not container:
            return False
        if is_sym(x):
            if _const_hash(x) and _all_sym_keys(container):
                return x in container  # constant-hash members: native probe forks on ==
            return _scan_contains(container, x)
        if _all_sym_keys(container) and isinstance(x, (int, bytes, str)):
            # concrete probe into a container of symbolic members: the real
            # hash would miss; scan with symbolic equality
            return _scan_contains(container, x)
        return x in container
    if is_sym(x):
        if isinstance(container, (type({}.keys()), type({}.values()))):
            return _scan_contains(container, x)
        if t in _STR_TYPES:
            return x in lift(container)
    return x in container


def _h_item(obj: Any, k: Any) -> Any:
    tk = type(k)
    if tk is _real_int or tk is _real_str:
        return obj[k]
    if tk is slice:
        if (is_sym(k.start) or is_sym(k.stop)) and type(obj) in _STR_TYPES + (list, tuple):
            if type(obj) in _STR_TYPES:
                return lift(obj)[k]
            from .symbytes import _conc_index
            n = len(obj)
            return obj[_conc_index(k.start, n, 0):_conc_index(k.stop, n, n)]
        return obj[k]
    if tk is SymInt or tk is SymUid:
        if type(obj) in _STR_TYPES:
            return lift(obj)[k]
    elif isinstance(obj, _MAPPINGS) and isinstance(k, _SymSeq) and _const_hash(k) and not _all_sym_keys(obj):
        # a symbolic str/bytes key into a mapping holding real keys: the constant hash would miss
        for q in list(obj.keys()):
            c = (k == q)
            if c is NotImplemented or c is False:
                continue
            if c:
                return obj[q]
        raise KeyError(k)
    return obj[k]


def _h_fuel() -> None:
    e = Engine.cur
    if e is not None:
        e.tick()


_METHODS = frozenset([
    'join', 'startswith', 'endswith', 'find', 'rfind', 'index', 'rindex',
    'split', 'rsplit', 'replace', 'strip', 'lstrip', 'rstrip', 'partition',
    'rpartition', 'count', 'get', 'pop', 'decode', 'encode', 'upper', 'lower'])


class _Transform(ast.NodeTransformer):
    def visit_Call(self, node: ast.Call) -> Any:
        self.generic_visit(node)
        f = node.func
        if isinstance(f, ast.Attribute) and f.attr in _METHODS \
                and not (isinstance(f.value, ast.Call)
                         and isinstance(f.value.func, ast.Name)
                         and f.value.func.id == 'super'):
            new = ast.Call(
                func=ast.Name(id='__sym_m__', ctx=ast.Load()),
                args=[f.value, ast.Constant(f.attr)] + node.args,
                keywords=node.keywords)
            return ast.copy_location(new, node)
        return node

    def visit_BinOp(self, node: ast.BinOp) -> Any:
        self.generic_visit(node)
        if isinstance(node.op, ast.Mod):
            new = ast.Call(func=ast.Name(id='__sym_mod__', ctx=ast.Load()),
                           args=[node.left, node.right], keywords=[])
            return ast.copy_location(new, node)
        return node

    def visit_Compare(self, node: ast.Compare) -> Any:
        self.generic_visit(node)
        if len(node.ops) == 1 and isinstance(node.ops[0], (ast.In, ast.NotIn)):
            call = ast.Call(func=ast.Name(id='__sym_in__', ctx=ast.Load()),
                            args=[node.left, node.comparators[0]], keywords=[])
            new: Any = call
            if isinstance(node.ops[0], ast.NotIn):
                new = ast.UnaryOp(op=ast.Not(), operand=call)
            return ast.copy_location(new, node)
        return node

    def visit_Subscript(self, node: ast.Subscript) -> Any:
        self.generic_visit(node)
        if isinstance(node.ctx, ast.Load):
            new = ast.Call(func=ast.Name(id='__sym_item__', ctx=ast.Load()),
                           args=[node.value, node.slice], keywords=[])
            return ast.copy_location(new, node)
        return node

    def visit_Dict(self, node: ast.Dict) -> Any:
        self.generic_visit(node)
        new = ast.Call(func=ast.Name(id='__sym_dict__', ctx=ast.Load()),
                       args=[node], keywords=[])
        return ast.copy_location(new, node)

    def visit_DictComp(self, node: ast.DictComp) -> Any:
        self.generic_visit(node)
        new = ast.Call(func=ast.Name(id='__sym_dict__', ctx=ast.Load()),
                       args=[node], keywords=[])
        return ast.copy_location(new, node)

    def _fuel(self, node: Any) -> Any:
        self.generic_visit(node)
        tick = ast.Expr(ast.Call(func=ast.Name(id='__sym_fuel__', ctx=ast.Load()),
                                 args=[], keywords=[]))
        ast.copy_location(tick, node)
        node.body.insert(0, tick)
        return node

    visit_While = _fuel
    visit_For = _fuel
    visit_AsyncFor = _fuel


SYM_BUILTINS.update(__sym_m__=_h_method, __sym_mod__=_h_mod, __sym_in__=_h_in,
                    __sym_fuel__=_h_fuel, __sym_dict__=SymDict,
                    __sym_item__=_h_item)

loaded_sources: dict[str, str] = {}


class _Loader(importlib.machinery.SourceFileLoader):
    def get_code(self, fullname: str) -> Any:
        path = self.get_filename(fullname)
        data = self.get_data(path)
        loaded_sources[fullname] = hashlib.sha256(data).hexdigest()
        tree = ast.parse(data, path)
        tree = _Transform().visit(tree)
        ast.fix_missing_locations(tree)
        return compile(tree, path, 'exec', dont_inherit=True)

    def exec_module(self, module: Any) -> None:
        module.__dict__['__builtins__'] = SYM_BUILTINS
        super().exec_module(module)


# third-party modules that sit between the wire and pymap and see client bytes: instrumented like pymap itself
EXTRA_INSTRUMENTED = ('pysasl.mechanism.plain', 'pysasl.mechanism.login')


class _Finder(importlib.abc.MetaPathFinder):
    def find_spec(self, fullname: str, path: Any, target: Any = None) -> Any:
        if fullname != 'pymap' and not fullname.startswith('pymap.') and fullname not in EXTRA_INSTRUMENTED:
            return None
        spec = importlib.machinery.PathFinder.find_spec(fullname, path)
        if spec is None or not isinstance(
                spec.loader, importlib.machinery.SourceFileLoader):
            return spec
        spec.loader = _Loader(spec.loader.name, spec.loader.path)
        return spec


_installed = [False]


def install(symbolic: bool = True) -> None:
    """Install the import hook.  Must run before any ``import pymap``."""
    if _installed[0]:
        return
    if any(m == 'pymap' or m.startswith('pymap.') for m in sys.modules):
        raise RuntimeError('pymap imported before the instrumented loader')
    sys.dont_write_bytecode = True
    # the hooks add up to one frame per call in instrumented code: scale the limit so that a recursion the real
    # code survives (limit 1000) is not cut short here; a counterexample is replayed on the real code anyway
    sys.setrecursionlimit(max(sys.getrecursionlimit(), 2500))
    if REPO not in sys.path:
        sys.path.insert(0, REPO)
    sys.meta_path.insert(0, _Finder())
    _symbolic_mode[0] = symbolic
    _installed[0] = True

from __future__ import annotations

import argparse
import importlib
import json
import os
import sys


def main() -> int:
    ap = argparse.ArgumentParser()
    ap.add_argument('id')
    ap.add_argument('--tier', default=os.environ.get('VERIF_TIER') or 'quick',
                    choices=['quick', 'thorough'])
    ap.add_argument('--replay')
    a = ap.parse_args()
    name = 'checks.%s' % a.id.lower()
    if a.replay:
        # replay runs on uninstrumented pymap
        mod = importlib.import_module(name)
        with open(a.replay) as f:
            rec = json.load(f)
        r = mod.replay(rec['harness'], rec['witness'])
        if isinstance(r, bool):
            r = {'violates': r}
        print(json.dumps(r, default=str, indent=1))
        if r.get('violates'):
            print('VIOLATION property=%s replay=%s' % (a.id, a.replay))
            return 1
        return 0
    mod = importlib.import_module(name)
    if hasattr(mod, 'main'):
        return mod.main(a.tier)
    from pysymex import loader
    loader.install()
    from pysymex.runner import run_check
    mod.setup()
    return run_check(mod, a.tier)


if __name__ == '__main__':
    sys.exit(main())

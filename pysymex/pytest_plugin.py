"""pytest plugin: run the repository's tests under the instrumented loader
(concrete values, symbolic-mode proxies) - the fidelity gate of DESIGN 3.1."""
from . import loader
loader.install(symbolic=True)

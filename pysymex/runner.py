"""Check runner: parallel path exploration, replay gate, known findings,
evidence files, exit codes (DESIGN 4).

exit 0  every path of every harness explored within its bound, every proof
        query unsat (or the counterexample is a listed known finding)
exit 1  VIOLATION: a solver counterexample that reproduces on uninstrumented
        pymap and is not a listed known finding
exit 2  inconclusive / harness error (never a pass, never a violation)
"""
from __future__ import annotations

import hashlib
import inspect
import json
import multiprocessing as mp
import os
import subprocess
import sys
import time
import traceback
from typing import Any, Callable

from .core import (Engine, Unsupported, FuelExhausted, Infeasible, Outcome,
                   BoundExceeded)

VERIF = os.path.dirname(os.path.dirname(os.path.abspath(__file__)))
NPROC = int(os.environ.get('VERIF_JOBS', '0')) or min(16, os.cpu_count() or 1)


class Harness:
    def __init__(self, name: str, fn: Callable[[Engine], Any], bound: dict,
                 replay: str | None = None, fuel: int | None = None,
                 expect_sites: list[str] | None = None,
                 sample_every: int = 7, max_samples: int = 40,
                 task_budget: int = 150, timeout_ms: int = 30000) -> None:
        self.name = name
        self.fn = fn
        self.bound = bound
        self.replay = replay or name
        self.fuel = fuel
        self.expect_sites = expect_sites or []
        self.sample_every = sample_every
        self.max_samples = max_samples
        self.task_budget = task_budget
        self.timeout_ms = timeout_ms


_HARNESSES: list[Harness] = []


def _worker(arg: tuple) -> dict:
    hi, prefix, budget, deadline = arg
    h = _HARNESSES[hi]
    eng = Engine(timeout_ms=h.timeout_ms, fuel=h.fuel)
    eng.sample_every = h.sample_every
    out = {'cex': [], 'samples': [], 'bound': 0, 'proved': 0, 'errors': [],
           'pending': [], 'stats': None, 'bound_details': {}}
    nseen = 0
    try:
        for rec in eng.explore(h.fn, roots=[prefix], max_paths=budget,
                               deadline=deadline):
            st = rec['status']
            if st == 'proved':
                out['proved'] += 1
                nseen += 1
                if rec.get('sample') is not None and len(out['samples']) < 6:
                    out['samples'].append(rec['sample'])
            elif st == 'cex':
                out['cex'].append({'witness': rec['witness'], 'site': rec['site'],
                                   'info': rec['info'], 'trail': rec.get('trail')})
            elif st == 'bound':
                out['bound'] += 1
                d = rec.get('detail', '')
                out['bound_details'][d] = out['bound_details'].get(d, 0) + 1
            elif st == 'error':
                out['errors'].append(rec['detail'])
    except Unsupported as exc:
        out['errors'].append('Unsupported: %s @ %s' % (exc, _where(exc)))
    except FuelExhausted as exc:
        out['errors'].append('FuelExhausted(engine bound): %s @ %s' % (exc, _where(exc)))
    except RecursionError as exc:
        out['errors'].append('RecursionError in harness: %s' % (exc,))
    except Exception as exc:  # harness bug
        out['errors'].append('HarnessException: %r\n%s' % (exc, traceback.format_exc()[-1500:]))
    out['pending'] = eng.pending
    out['stats'] = eng.stats()
    return out


def _where(exc: BaseException) -> str:
    tb = traceback.extract_tb(exc.__traceback__)
    frames = [f for f in tb if '/pymap/' in f.filename or '/checks/' in f.filename]
    if frames:
        f = frames[-1]
        return '%s:%d %s' % (f.filename, f.lineno, f.name)
    return ''


def _new_agg(h: Harness) -> dict:
    return {'name': h.name, 'bound': h.bound, 'paths': 0, 'proved': 0, 'cex': [],
            'samples': [], 'bound_exceeded': 0, 'errors': [], 'exhausted': True,
            'feasibility_queries': 0, 'proof_unsat': 0, 'proof_sat': 0,
            'proof_unknown': 0, 'solver_s': 0.0, 'sites': {}, 'vacuous': 0,
            'bound_details': {}, 'infeasible_prefixes': 0, 'wall_s': 0.0,
            '_open': 0, '_t0': None}


def explore_all(hs: list, pool: Any, deadline: float) -> list:
    """Explore every harness to exhaustion (or the deadline) on one shared
    pool: a global work queue of (harness, decision prefix) subtrees."""
    from collections import deque
    aggs = [_new_agg(h) for h in hs]
    queue: Any = deque((hi, [], 24) for hi in range(len(hs)))
    inflight: list = []
    verbose = bool(os.environ.get('VERIF_VERBOSE'))
    while queue or inflight:
        if time.time() > deadline:
            for agg in aggs:
                if agg['_open'] or any(q[0] == aggs.index(agg) for q in queue):
                    agg['exhausted'] = False
                    agg['errors'].append('time budget exhausted before the path tree was')
            break
        while queue and len(inflight) < NPROC * 3:
            hi, prefix, budget = queue.popleft()
            agg = aggs[hi]
            if agg['_t0'] is None:
                agg['_t0'] = time.time()
            agg['_open'] += 1
            inflight.append((hi, pool.apply_async(_worker, ((hi, prefix, budget, deadline),))))
        still = []
        progressed = False
        for hi, r in inflight:
            if not r.ready():
                still.append((hi, r))
                continue
            progressed = True
            agg = aggs[hi]
            h = hs[hi]
            out = r.get()
            st = out['stats']
            agg['_open'] -= 1
            agg['paths'] += st['paths']
            agg['proved'] += out['proved']
            agg['cex'].extend(out['cex'])
            if len(agg['samples']) < h.max_samples:
                agg['samples'].extend(out['samples'])
            agg['bound_exceeded'] += out['bound']
            agg['errors'].extend(out['errors'])
            for k in ('feasibility_queries', 'proof_unsat', 'proof_sat',
                      'proof_unknown', 'infeasible_prefixes'):
                agg[k] += st[k]
            agg['solver_s'] += st['solver_s']
            agg['vacuous'] += st.get('vacuous', 0)
            for k, v in st['sites'].items():
                agg['sites'][k] = agg['sites'].get(k, 0) + v
            for k, v in out['bound_details'].items():
                agg['bound_details'][k] = agg['bound_details'].get(k, 0) + v
            # leftover subtrees go to the front (finish a harness before starting later ones);
            # shallow (big) subtrees first
            for pfx in sorted(out['pending'], key=len, reverse=True):
                queue.appendleft((hi, pfx, h.task_budget))
            if agg['_open'] == 0 and not out['pending'] and \
                    not any(q[0] == hi for q in list(queue)[:64]):
                agg['wall_s'] = round(time.time() - agg['_t0'], 2)
                if verbose:
                    print('  %-44s paths=%d cex=%d bound=%d wall=%.1fs solver=%.1fs err=%d' % (
                        agg['name'], agg['paths'], len(agg['cex']), agg['bound_exceeded'],
                        agg['wall_s'], agg['solver_s'], len(agg['errors'])), flush=True)
        inflight = still
        if not progressed:
            time.sleep(0.003)
    for agg in aggs:
        if agg['errors']:
            agg['exhausted'] = False
        if agg['_t0'] is not None and not agg['wall_s']:
            agg['wall_s'] = round(time.time() - agg['_t0'], 2)
        agg['solver_s'] = round(agg['solver_s'], 2)
        del agg['_open'], agg['_t0']
    return aggs


# ------------------------------------------------------------------ replay
def replay_batch(check_id: str, items: list[dict]) -> list[dict]:
    """Run ``checks.<id>.replay`` on plain (uninstrumented) pymap in
    subprocesses (chunks in parallel).  items: [{'harness':..., 'witness':...}]"""
    if not items:
        return []
    scratch = os.environ.get('VERIF_SCRATCH') or '/var/tmp/pymap-verif-%d' % os.getpid()
    os.makedirs(scratch, exist_ok=True)
    nchunks = max(1, min(NPROC, len(items) // 8 or 1))
    chunks = [items[i::nchunks] for i in range(nchunks)]
    env = dict(os.environ)
    env['PYTHONPATH'] = (os.environ.get('VERIF_REPO') or '/repo') + ':' + VERIF
    env['PYTHONDONTWRITEBYTECODE'] = '1'
    procs = []
    files = []
    try:
        for ci, chunk in enumerate(chunks):
            inp = os.path.join(scratch, 'replay-in-%s-%d.json' % (check_id, ci))
            outp = os.path.join(scratch, 'replay-out-%s-%d.json' % (check_id, ci))
            files += [inp, outp]
            with open(inp, 'w') as f:
                json.dump(chunk, f)
            procs.append((subprocess.Popen(
                [sys.executable, '-m', 'checks._replay_main', check_id, inp, outp],
                env=env, cwd=VERIF, stdout=subprocess.PIPE, stderr=subprocess.PIPE, text=True), outp))
        results_chunks = []
        for p, outp in procs:
            _, err = p.communicate(timeout=3600)
            if p.returncode != 0:
                raise RuntimeError('replay subprocess failed: %s' % err[-2000:])
            with open(outp) as f:
                results_chunks.append(json.load(f))
        out: list = [None] * len(items)
        for ci, res in enumerate(results_chunks):
            for j, r in enumerate(res):
                out[ci + j * nchunks] = r
        return out
    finally:
        for pth in files:
            try:
                os.unlink(pth)
            except OSError:
                pass
        try:
            os.rmdir(scratch)
        except OSError:
            pass


def load_known(check_id: str) -> tuple[list[dict], list[dict]]:
    path = os.path.join(VERIF, 'known_findings.json')
    if not os.path.exists(path):
        return [], []
    with open(path) as f:
        data = json.load(f)
    known = [e for e in data.get('known', []) if e['property'] == check_id]
    fixed = [e for e in data.get('fixed', []) if e['property'] == check_id]
    return known, fixed


def source_digests(funcs: list[str]) -> list[dict]:
    """qualified names 'pkg.mod:Class.method' -> sha256 of current source"""
    import importlib
    out = []
    for q in funcs:
        mod, _, attr = q.partition(':')
        try:
            obj: Any = importlib.import_module(mod)
            for part in attr.split('.'):
                obj = inspect.getattr_static(obj, part) if False else getattr(obj, part)
            obj = getattr(obj, '__func__', obj)
            obj = getattr(obj, 'fget', obj)
            obj = inspect.unwrap(obj)
            src = inspect.getsource(obj)
            out.append({'function': q, 'sha256': hashlib.sha256(src.encode()).hexdigest()[:16],
                        'lines': src.count('\n')})
        except Exception as exc:
            out.append({'function': q, 'error': repr(exc)})
    return out


def run_check(mod: Any, tier: str) -> int:
    """mod: a checks.cXX module with ID, harnesses(tier), replay(harness,
    witness), optional classify(harness, witness, result), FUNCTIONS, LEVEL,
    ASSUMPTIONS, STUBS."""
    global _HARNESSES
    t0 = time.time()
    check_id = mod.ID
    seed = int(os.environ.get('VERIF_SEED', '0') or 0)
    hs: list[Harness] = mod.harnesses(tier)
    only = os.environ.get('VERIF_ONLY')
    if only:     # debugging aid: run the harnesses whose name contains this text (the run is then never a pass)
        hs = [h for h in hs if only in h.name]
    _HARNESSES = hs
    budget_s = float(os.environ.get('VERIF_BUDGET_S', '0') or 0) or \
        getattr(mod, 'TIME_BUDGET', {'quick': 600, 'thorough': 7200})[tier]
    deadline = t0 + budget_s
    ctx = mp.get_context('fork')
    results = []
    with ctx.Pool(NPROC) as pool:
        results = explore_all(hs, pool, deadline)
    # ---------------- counterexamples: replay on uninstrumented code
    known, fixed = load_known(check_id)
    to_replay = []
    for h, r in zip(hs, results):
        seen = set()
        for c in r['cex']:
            key = json.dumps(c['witness'], sort_keys=True, default=str)
            if key in seen:
                continue
            seen.add(key)
            to_replay.append({'harness': h.replay, 'name': r['name'], 'witness': c['witness'],
                              'expect': 'violates', 'site': c['site'], 'info': c.get('info')})
        for s in r['samples'][:h.max_samples]:
            to_replay.append({'harness': h.replay, 'name': r['name'], 'witness': s,
                              'expect': 'holds', 'site': 'sample'})
    if os.environ.get('VERIF_DUMP_CEX'):
        with open(os.environ['VERIF_DUMP_CEX'], 'w') as f:
            json.dump([{'name': r['name'], 'cex': r['cex'][:50]} for r in results], f, default=str)
    replayed = replay_batch(check_id, to_replay) if to_replay else []
    violations, known_hits, harness_errors = [], {}, []
    validated = 0
    for item, res in zip(to_replay, replayed):
        if item['expect'] == 'holds':
            if res.get('error'):
                harness_errors.append('sample replay error in %s: %s (witness %s)' % (
                    item['harness'], res['error'], json.dumps(item['witness'])[:300]))
            elif res['violates']:
                harness_errors.append(
                    'path proved by the solver but the concrete sample violates the '
                    'property on real code: %s %s' % (item['harness'], json.dumps(item['witness'])[:300]))
            else:
                validated += 1
            continue
        if res.get('error'):
            harness_errors.append('replay error in %s: %s' % (item['harness'], res['error']))
            continue
        if not res['violates']:
            harness_errors.append(
                'counterexample does not reproduce on uninstrumented pymap: %s %s -> %s [engine: %s]'
                % (item['harness'], json.dumps(item['witness'])[:300], str(res.get('detail'))[:300],
                   str(item.get('info'))[:200]))
            continue
        validated += 1
        kf = None
        if hasattr(mod, 'classify'):
            kf = mod.classify(item['harness'], item['witness'], res)
        ent = next((e for e in known if e['id'] == kf), None) if kf else None
        if ent is not None:
            known_hits.setdefault(kf, {'entry': ent, 'count': 0, 'example': item['witness']})
            known_hits[kf]['count'] += 1
        else:
            violations.append({'harness': item['harness'], 'witness': item['witness'],
                               'detail': res.get('detail'), 'classified_as': kf,
                               'category': res.get('category') or kf or item['harness']})
    # ---------------- vacuity / reachability
    for h, r in zip(hs, results):
        for s in h.expect_sites:
            if r['sites'].get(s, 0) < 1:
                harness_errors.append('vacuity: no feasible path reached site %r in %s' % (s, h.name))
        if r['paths'] < 1:
            harness_errors.append('vacuity: harness %s explored no path' % h.name)
        for e in r['errors']:
            harness_errors.append('%s: %s' % (h.name, e))
    # ---------------- report
    rc = 0
    os.makedirs(os.path.join(VERIF, 'replays'), exist_ok=True)
    for kf, hit in known_hits.items():
        print('KNOWN-FINDING: property=%s %s [%s; %d counterexample path(s), e.g. %s]' % (
            check_id, hit['entry']['what'], kf, hit['count'],
            json.dumps(hit['example'])[:200]))
    shown = 0
    _seen_cat: dict = {}
    for v in violations:
        _seen_cat[v['category']] = _seen_cat.get(v['category'], 0) + 1
        v['_rank'] = _seen_cat[v['category']]
    violations.sort(key=lambda v: v['_rank'])
    for v in violations:
        hsh = hashlib.sha256(json.dumps(v['witness'], sort_keys=True, default=str).encode()).hexdigest()[:12]
        path = os.path.join(VERIF, 'replays', '%s-%s.json' % (check_id, hsh))
        if shown < 25:
            with open(path, 'w') as f:
                json.dump({'property': check_id, 'harness': v['harness'],
                           'witness': v['witness'], 'detail': v['detail']}, f, indent=1, default=str)
            print('VIOLATION property=%s replay=%s' % (check_id, path))
            print('  harness=%s witness=%s detail=%s' % (
                v['harness'], json.dumps(v['witness'], default=str)[:300], str(v['detail'])[:300]))
        shown += 1
    if violations:
        cats: dict = {}
        for v in violations:
            cats.setdefault(v['category'], []).append(v)
        for c, vs in sorted(cats.items(), key=lambda kv: -len(kv[1])):
            print('  violation category %-60s %5d path(s), e.g. %s' % (
                c, len(vs), json.dumps(vs[0]['witness'], default=str)[:160]))
        if shown > 25:
            print('  (%d further violating paths not written)' % (shown - 25))
        rc = 1
    if harness_errors:
        for e in harness_errors[:30]:
            print('HARNESS-ERROR/INCONCLUSIVE: %s' % e)
        if rc == 0:
            rc = 2
    wall = time.time() - t0
    # ---------------- evidence
    tot = lambda k: sum(r[k] for r in results)  # noqa: E731
    samples = []
    for r in results:
        for s in r['samples'][:2]:
            samples.append({'harness': r['name'], 'proved_path_sample': s})
        for c in r['cex'][:2]:
            samples.append({'harness': r['name'], 'counterexample': c['witness']})
    if not samples:
        samples = [{'harness': r['name'], 'bound': r['bound']} for r in results]
    ev = {
        'property_id': check_id, 'tier': tier, 'seed': seed,
        'level': mod.LEVEL,
        'coverage': {
            'states': max(1, tot('paths')),
            'transitions': max(1, tot('feasibility_queries')),
            'traces_validated_against_impl': validated,
            'samples': samples[:12],
            'obligations': tot('proof_unsat') + tot('proof_sat') + tot('proof_unknown'),
            'discharged': tot('proof_unsat'),
            'evaluations': max(1, tot('paths')),
            'distinct_nontrivial': max(0, tot('paths')),
            'rule': 'one evaluation = one feasible path of the real code under symbolic inputs '
                    '(a set of concrete inputs, usually infinite); paths are distinct by '
                    'construction (distinct decision sequences); each ends in one SMT proof '
                    'obligation pc AND NOT property',
            'exhaustive': all(r['exhausted'] for r in results),
            'explanation': getattr(mod, 'EXPLANATION', ''),
            'engine': 'pysymex (z3 %s)' % _z3v(),
            'functions_encoded': source_digests(getattr(mod, 'FUNCTIONS', [])),
            'pymap_modules_sha256': _loaded_digest(),
            'harnesses': [{k: r[k] for k in (
                'name', 'bound', 'paths', 'proved', 'bound_exceeded', 'exhausted',
                'feasibility_queries', 'proof_unsat', 'proof_sat', 'proof_unknown',
                'solver_s', 'wall_s', 'sites', 'bound_details', 'infeasible_prefixes')}
                | {'counterexample_paths': len(r['cex'])} for r in results],
            'queries_discharged': tot('proof_unsat'),
            'solver_time_s': round(tot('solver_s'), 2),
            'counterexamples_found': sum(len(r['cex']) for r in results),
            'counterexamples_reproduced': len(violations) + sum(h['count'] for h in known_hits.values()),
            'known_findings_hit': {k: v['count'] for k, v in known_hits.items()},
            'inconclusive': harness_errors[:20],
            'stubs': getattr(mod, 'STUBS', []),
            'outside_claim': getattr(mod, 'OUTSIDE', []),
            'checker_cmd': './check %s --tier %s' % (check_id, tier),
            'trusted_base': ['z3', 'pysymex proxies/regex matcher/loader (validated by the pinned '
                             'test suite under the loader and by concrete replay of sampled paths)',
                             'CPython 3.12'],
        },
        'assumptions': getattr(mod, 'ASSUMPTIONS', []),
        'wall_s': round(wall, 2),
        'violations': len(violations),
    }
    os.makedirs(os.path.join(VERIF, 'evidence'), exist_ok=True)
    with open(os.path.join(VERIF, 'evidence', '%s.json' % check_id), 'w') as f:
        json.dump(ev, f, indent=1, default=str)
    print('%s tier=%s paths=%d proved=%d cex=%d known=%d violations=%d bound_exceeded=%d '
          'queries=%d solver=%.1fs wall=%.1fs exit=%d' % (
              check_id, tier, tot('paths'), tot('proved'),
              sum(len(r['cex']) for r in results),
              sum(h['count'] for h in known_hits.values()), len(violations),
              tot('bound_exceeded'),
              tot('feasibility_queries') + ev['coverage']['obligations'],
              tot('solver_s'), wall, rc))
    return rc


def _z3v() -> str:
    import z3
    return z3.get_version_string()


def _loaded_digest() -> str:
    from . import loader
    h = hashlib.sha256()
    for k in sorted(loader.loaded_sources):
        h.update(k.encode())
        h.update(loader.loaded_sources[k].encode())
    return '%d modules %s' % (len(loader.loaded_sources), h.hexdigest()[:16])

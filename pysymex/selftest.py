"""Fidelity gate (DESIGN 3.1): the repository's pinned test suite must pass
under the instrumented loader (AST transform + sym-aware builtins, symbolic-
mode proxies, concrete values), and the symbolic regex matcher / sequence
proxies must agree with the real implementations on concrete inputs."""
from __future__ import annotations

import os
import re
import subprocess
import sys


def run_repo_tests() -> int:
    env = dict(os.environ)
    env['PYTHONPATH'] = '/verif/.deps:/verif:/repo'
    p = subprocess.run(
        [sys.executable, '-m', 'pytest', '-q', '-p', 'pysymex.pytest_plugin',
         '-p', 'no:cacheprovider', '--continue-on-collection-errors', '--timeout=900'],
        cwd=os.environ.get('VERIF_REPO') or '/repo', env=env, capture_output=True, text=True)
    tail = p.stdout.strip().splitlines()[-1] if p.stdout.strip() else ''
    m = re.search(r'(\d+) passed', tail)
    failed = re.search(r'(\d+) failed', tail)
    n = int(m.group(1)) if m else 0
    print('repo tests under instrumented loader:', tail)
    if failed or n < 300:
        print(p.stdout[-3000:])
        return 1
    return 0


def main() -> int:
    rc = run_repo_tests()
    from pysymex import difftest
    rc |= difftest.main()
    return rc


if __name__ == '__main__':
    sys.exit(main())

"""SymBytes / SymStr: sequences with concrete length and symbolic items.

Items are ``int`` or ``SymInt``.  Operations that depend on content return
``SymBool`` (which forks when branched on) or are written so that the Python
control flow of the *called* pymap code does the forking.
"""
from __future__ import annotations

from typing import Any, Iterable

import z3

from .core import (Engine, SymInt, SymBool, Unsupported, is_sym, _it, cur, B,
                   AND, OR, BoundExceeded)

__all__ = ['SymBytes', 'SymStr', 'fresh_bytes', 'fresh_str', 'sym_format',
           'render_int', 'parse_int', 'items_of', 'any_sym', 'lift']

_BYTESLIKE = (bytes, bytearray, memoryview)

# numbers rendered with %d are bounded to this many digits (shape bound)
MAX_DIGITS = 4


def _eq_items(a: list, b: list) -> Any:
    if len(a) != len(b):
        return False
    conds = []
    for x, y in zip(a, b):
        if isinstance(x, int) and isinstance(y, int):
            if x != y:
                return False
        else:
            conds.append(_it(x) == _it(y))
    if not conds:
        return True
    return SymBool(z3.And(*conds) if len(conds) > 1 else conds[0])


def _lt_items(a: list, b: list) -> Any:
    """lexicographic a < b as a non-forking term"""
    n = min(len(a), len(b))
    res = z3.BoolVal(len(a) < len(b))
    for i in range(n - 1, -1, -1):
        x, y = _it(a[i]), _it(b[i])
        res = z3.If(x < y, z3.BoolVal(True), z3.If(x == y, res, z3.BoolVal(False)))
    res = z3.simplify(res)
    if z3.is_true(res):
        return True
    if z3.is_false(res):
        return False
    return SymBool(res)


def _conc_index(i: Any, n: int, default: int) -> int:
    """slice index (possibly symbolic) -> concrete clamped index in 0..n"""
    if i is None:
        return default
    if isinstance(i, SymInt):
        # fork on the clamped value; at most n+2 outcomes
        if i < 0:
            j = i + n
            if j < 0:
                return 0
            return cur().concretize(j.t, limit=n + 2)
        if i >= n:
            return n
        return cur().concretize(i.t, limit=n + 2)
    i = i.__index__()
    if i < 0:
        i = max(0, n + i)
    return min(i, n)


def _in_range(c: Any, lo: int, hi: int) -> Any:
    if isinstance(c, int):
        return lo <= c <= hi
    return SymBool(z3.And(c.t >= lo, c.t <= hi))


def _upper_item(c: Any) -> Any:
    if isinstance(c, int):
        return c - 32 if 97 <= c <= 122 else c
    return SymInt(z3.If(z3.And(c.t >= 97, c.t <= 122), c.t - 32, c.t))


def _upper_item_str(c: Any) -> Any:
    """str.upper() for one code point, exact wherever the result is ASCII: besides a-z only U+0131 (dotless i -> I) and
    U+017F (long s -> S) have an ASCII upper case; every other non-ASCII code point maps to a non-ASCII one and is left
    as it is (sound for comparisons against ASCII text, which is what pymap does with it)"""
    if isinstance(c, int):
        return 0x49 if c == 0x131 else 0x53 if c == 0x17f else _upper_item(c)
    return SymInt(z3.If(z3.And(c.t >= 97, c.t <= 122), c.t - 32,
                        z3.If(c.t == 0x131, z3.IntVal(0x49), z3.If(c.t == 0x17f, z3.IntVal(0x53), c.t))))


def _lower_item(c: Any) -> Any:
    if isinstance(c, int):
        return c + 32 if 65 <= c <= 90 else c
    return SymInt(z3.If(z3.And(c.t >= 65, c.t <= 90), c.t + 32, c.t))


class _SymSeq:
    _sym = True
    HASH_OK = False
    __slots__ = ('_items', '_thunk', 'kind')

    @property
    def items(self) -> list:
        if self._items is None:
            # lazily rendered (e.g. ``b'%d' % symbolic_int``): forks on the
            # digit count happen only if somebody looks at the bytes
            self._items = list(self._thunk())
            self._thunk = None
        return self._items

    @items.setter
    def items(self, v: Any) -> None:
        self._items = v
        self._thunk = None

    @classmethod
    def lazy(cls, thunk: Any, kind: str = 'bytes') -> Any:
        self = cls.__new__(cls)
        self._items = None
        self._thunk = thunk
        self.kind = kind
        return self

    def _own(self, x: Any) -> 'list | None':
        raise NotImplementedError

    def _new(self, items: Iterable, kind: str | None = None) -> Any:
        raise NotImplementedError

    def __len__(self) -> int:
        return len(self.items)

    def __bool__(self) -> bool:
        if self._items is None:
            return True  # a rendered number is never empty
        return len(self.items) > 0

    def is_concrete(self) -> bool:
        return all(isinstance(x, int) for x in self.items)

    def __hash__(self) -> int:
        # a value without symbolic items hashes like the real object (it may be handed to uninstrumented code
        # that keeps it in a dict next to real bytes/str); a value with symbolic items gets the constant hash, so
        # that native probes among such values compare with == (which forks)
        if self._items is not None and self.is_concrete():
            return hash(self.lower_concrete())
        if type(self).HASH_OK:
            return 7919
        if self.is_concrete():
            return hash(self.lower_concrete())
        raise Unsupported('hash(%s)' % type(self).__name__)

    def __getattr__(self, name: str) -> Any:
        # unmodelled method: only a fully concrete value may use the real one
        if name.startswith('__') or name in ('items', 'kind', '_items', '_thunk'):
            raise AttributeError(name)
        if self.is_concrete():
            return getattr(self.lower_concrete(), name)
        raise Unsupported('%s.%s on symbolic data' % (type(self).__name__, name))

    def __eq__(self, o: Any) -> Any:
        other = self._own(o)
        if other is None:
            return NotImplemented
        return _eq_items(self.items, other)

    def __ne__(self, o: Any) -> Any:
        r = self.__eq__(o)
        if r is NotImplemented:
            return r
        return (not r) if isinstance(r, bool) else ~r

    def __lt__(self, o: Any) -> Any:
        other = self._own(o)
        if other is None:
            return NotImplemented
        return _lt_items(self.items, other)

    def __gt__(self, o: Any) -> Any:
        other = self._own(o)
        if other is None:
            return NotImplemented
        return _lt_items(other, self.items)

    def __le__(self, o: Any) -> Any:
        r = self.__gt__(o)
        if r is NotImplemented:
            return r
        return (not r) if isinstance(r, bool) else ~r

    def __ge__(self, o: Any) -> Any:
        r = self.__lt__(o)
        if r is NotImplemented:
            return r
        return (not r) if isinstance(r, bool) else ~r

    def __add__(self, o: Any) -> Any:
        if _is_lazy(self) or _is_lazy(o):
            if not isinstance(o, (_SymSeq, bytes, bytearray, memoryview, str)):
                return NotImplemented
            return type(self).lazy(lambda: self.items + self._own(o), self.kind)
        other = self._own(o)
        if other is None:
            return NotImplemented
        return self._new(self.items + other)

    def __radd__(self, o: Any) -> Any:
        if _is_lazy(self):
            if not isinstance(o, (_SymSeq, bytes, bytearray, memoryview, str)):
                return NotImplemented
            return type(self).lazy(lambda: self._own(o) + self.items, self._kind_of(o))
        other = self._own(o)
        if other is None:
            return NotImplemented
        return self._new(other + self.items, kind=self._kind_of(o))

    def _kind_of(self, o: Any) -> str:
        return 'bytes'

    def __mul__(self, n: Any) -> Any:
        return self._new(self.items * n.__index__())
    __rmul__ = __mul__

    def _find(self, sub: list, start: int, end: int, reverse: bool = False) -> int:
        rng = range(start, end - len(sub) + 1)
        if reverse:
            rng = reversed(rng)  # type: ignore
        for i in rng:
            if _eq_items(self.items[i:i + len(sub)], sub):
                return i
        return -1

    def _sub_arg(self, sub: Any) -> list:
        raise NotImplementedError

    def find(self, sub: Any, start: Any = None, end: Any = None) -> int:
        n = len(self.items)
        return self._find(self._sub_arg(sub), _conc_index(start, n, 0),
                          _conc_index(end, n, n))

    def rfind(self, sub: Any, start: Any = None, end: Any = None) -> int:
        n = len(self.items)
        return self._find(self._sub_arg(sub), _conc_index(start, n, 0),
                          _conc_index(end, n, n), reverse=True)

    def index(self, sub: Any, start: Any = None, end: Any = None) -> int:
        r = self.find(sub, start, end)
        if r < 0:
            raise ValueError('subsection not found')
        return r

    def rindex(self, sub: Any, start: Any = None, end: Any = None) -> int:
        r = self.rfind(sub, start, end)
        if r < 0:
            raise ValueError('subsection not found')
        return r

    def count(self, sub: Any) -> int:
        sub = self._sub_arg(sub)
        n = 0
        i = 0
        while i <= len(self.items) - len(sub):
            if _eq_items(self.items[i:i + len(sub)], sub):
                n += 1
                i += max(1, len(sub))
            else:
                i += 1
        return n

    def __contains__(self, sub: Any) -> bool:
        return self.find(sub) >= 0

    def startswith(self, p: Any, start: Any = None, end: Any = None) -> Any:
        if isinstance(p, tuple):
            for q in p:
                if self.startswith(q, start, end):
                    return True
            return False
        n = len(self.items)
        s, e = _conc_index(start, n, 0), _conc_index(end, n, n)
        p = self._sub_arg(p)
        if len(p) > e - s:
            return False
        return _eq_items(self.items[s:s + len(p)], p)

    def endswith(self, p: Any, start: Any = None, end: Any = None) -> Any:
        if isinstance(p, tuple):
            for q in p:
                if self.endswith(q, start, end):
                    return True
            return False
        n = len(self.items)
        s, e = _conc_index(start, n, 0), _conc_index(end, n, n)
        p = self._sub_arg(p)
        if len(p) > e - s:
            return False
        return _eq_items(self.items[e - len(p):e], p)

    def isascii(self) -> Any:
        conds = []
        for c in self.items:
            if isinstance(c, int):
                if c >= 0x80:
                    return False
            else:
                conds.append(c.t < 0x80)
        if not conds:
            return True
        return bool(SymBool(z3.And(*conds)))

    def _all_in(self, name: str, ranges: list) -> Any:
        """str/bytes predicate that is true iff the value is non-empty and every item lies in one of `ranges`
        (exact for bytes; for str only while every item is ASCII)"""
        if not self.items:
            return False
        conds = []
        for c in self.items:
            if isinstance(c, int):
                if not any(lo <= c <= hi for lo, hi in ranges):
                    if c >= 0x80 and self.kind == 'str':
                        return getattr(self.lower_concrete(), name)() if self.is_concrete() else self._nonascii(name)
                    return False
            else:
                if self.kind == 'str' and bool(c >= 0x80):
                    return self._nonascii(name)
                conds.append(z3.Or(*[z3.And(c.t >= lo, c.t <= hi) for lo, hi in ranges]))
        if not conds:
            return True
        return bool(SymBool(z3.And(*conds)))

    def _nonascii(self, name: str) -> Any:
        raise Unsupported('%s.%s on symbolic non-ASCII text' % (type(self).__name__, name))

    def isdigit(self) -> Any:
        return self._all_in('isdigit', [(48, 57)])

    def isalpha(self) -> Any:
        return self._all_in('isalpha', [(65, 90), (97, 122)])

    def isalnum(self) -> Any:
        return self._all_in('isalnum', [(48, 57), (65, 90), (97, 122)])

    def isspace(self) -> Any:
        return self._all_in('isspace', [(9, 13), (32, 32)] + ([(28, 31)] if self.kind == 'str' else []))

    def removeprefix(self, p: Any) -> Any:
        n = len(self._sub_arg(p))
        if n and self.startswith(p):
            return self[n:]
        return self[:]

    def removesuffix(self, p: Any) -> Any:
        n = len(self._sub_arg(p))
        if n and self.endswith(p):
            return self[:len(self.items) - n]
        return self[:]

    def _is_ws(self, c: Any) -> Any:
        ws = (9, 10, 11, 12, 13, 32)
        if isinstance(c, int):
            return c in ws
        return SymBool(z3.Or(*[c.t == v for v in ws]))

    def _strip_test(self, chars: Any):
        if chars is None:
            return self._is_ws
        cs = self._sub_arg(chars)

        def test(c: Any) -> Any:
            r: Any = False
            for x in cs:
                e = (c == x)
                if e is True:
                    return True
                if e is False:
                    continue
                r = e if r is False else (r | e)
            return r
        return test

    def lstrip(self, chars: Any = None) -> Any:
        t = self._strip_test(chars)
        i = 0
        while i < len(self.items) and t(self.items[i]):
            i += 1
        return self._new(self.items[i:])

    def rstrip(self, chars: Any = None) -> Any:
        t = self._strip_test(chars)
        j = len(self.items)
        while j > 0 and t(self.items[j - 1]):
            j -= 1
        return self._new(self.items[:j])

    def strip(self, chars: Any = None) -> Any:
        return self.lstrip(chars).rstrip(chars)

    def split(self, sep: Any = None, maxsplit: int = -1) -> list:
        out = []
        if sep is None:
            cur_: list = []
            n = 0
            i = 0
            items = self.items
            while i < len(items):
                if self._is_ws(items[i]):
                    if cur_:
                        out.append(self._new(cur_))
                        cur_ = []
                        n += 1
                    i += 1
                    if maxsplit >= 0 and n >= maxsplit:
                        while i < len(items) and self._is_ws(items[i]):
                            i += 1
                        rest = items[i:]
                        if rest:
                            # rstrip not applied by python for maxsplit
                            out.append(self._new(rest))
                        return out
                else:
                    cur_.append(items[i])
                    i += 1
            if cur_:
                out.append(self._new(cur_))
            return out
        sep = self._sub_arg(sep)
        if not sep:
            raise ValueError('empty separator')
        start = 0
        n = 0
        while maxsplit < 0 or n < maxsplit:
            i = self._find(sep, start, len(self.items))
            if i < 0:
                break
            out.append(self._new(self.items[start:i]))
            start = i + len(sep)
            n += 1
        out.append(self._new(self.items[start:]))
        return out

    def rsplit(self, sep: Any = None, maxsplit: int = -1) -> list:
        if sep is None:
            raise Unsupported('rsplit(None)')
        sep = self._sub_arg(sep)
        out = []
        end = len(self.items)
        n = 0
        while maxsplit < 0 or n < maxsplit:
            i = self._find(sep, 0, end, reverse=True)
            if i < 0:
                break
            out.append(self._new(self.items[i + len(sep):end]))
            end = i
            n += 1
        out.append(self._new(self.items[:end]))
        out.reverse()
        return out

    def partition(self, sep: Any) -> tuple:
        s = self._sub_arg(sep)
        i = self._find(s, 0, len(self.items))
        if i < 0:
            return (self._new(self.items), self._new([]), self._new([]))
        return (self._new(self.items[:i]), self._new(s),
                self._new(self.items[i + len(s):]))

    def rpartition(self, sep: Any) -> tuple:
        s = self._sub_arg(sep)
        i = self._find(s, 0, len(self.items), reverse=True)
        if i < 0:
            return (self._new([]), self._new([]), self._new(self.items))
        return (self._new(self.items[:i]), self._new(s),
                self._new(self.items[i + len(s):]))

    def replace(self, old: Any, new: Any, count: int = -1) -> Any:
        old = self._sub_arg(old)
        new = self._sub_arg(new)
        if not old:
            raise Unsupported('replace with empty pattern')
        out: list = []
        i = 0
        n = 0
        items = self.items
        while i < len(items):
            if (count < 0 or n < count) and i + len(old) <= len(items) \
                    and _eq_items(items[i:i + len(old)], old):
                out.extend(new)
                i += len(old)
                n += 1
            else:
                out.append(items[i])
                i += 1
        return self._new(out)

    def join(self, parts: Iterable) -> Any:
        parts = list(parts)
        if any(_is_lazy(p) for p in parts):
            return type(self).lazy(lambda: self._join_now(parts).items, self.kind)
        return self._join_now(parts)

    def _join_now(self, parts: Iterable) -> Any:
        out: list = []
        first = True
        for p in parts:
            q = self._own(p)
            if q is None:
                raise TypeError('sequence item: expected a bytes-like object, '
                                '%s found' % type(p).__name__)
            if not first:
                out.extend(self.items)
            out.extend(q)
            first = False
        return self._new(out)

    def upper(self) -> Any:
        return self._new([_upper_item(c) for c in self.items])

    def lower(self) -> Any:
        return self._new([_lower_item(c) for c in self.items])

    def capitalize(self) -> Any:
        it = self.items
        return self._new([_upper_item(c) for c in it[:1]]
                         + [_lower_item(c) for c in it[1:]])

    def isdigit(self) -> Any:
        if not self.items:
            return False
        return AND(*[_in_range(c, 48, 57) for c in self.items])

    def concrete(self, model: Any) -> list:
        out = []
        for x in self.items:
            out.append(x if isinstance(x, int)
                       else model.eval(x.t, model_completion=True).as_long())
        return out


class SymBytes(_SymSeq):
    """bytes / memoryview / bytearray stand-in."""
    __slots__ = ()

    def __init__(self, items: Iterable, kind: str = 'bytes') -> None:
        self.items = list(items)
        self.kind = kind

    def _new(self, items: Iterable, kind: str | None = None) -> 'SymBytes':
        return SymBytes(items, kind or ('bytes' if self.kind == 'bytearray' and False else self.kind))

    def _kind_of(self, o: Any) -> str:
        if isinstance(o, bytearray):
            return 'bytearray'
        if isinstance(o, memoryview):
            return 'memoryview'
        if isinstance(o, SymBytes):
            return o.kind
        return 'bytes'

    def _own(self, x: Any) -> 'list | None':
        if isinstance(x, SymBytes):
            return x.items
        if isinstance(x, _BYTESLIKE):
            return list(bytes(x))
        return None

    def _sub_arg(self, sub: Any) -> list:
        if isinstance(sub, (int, SymInt)) and not isinstance(sub, bool):
            return [sub]
        r = self._own(sub)
        if r is None:
            raise TypeError('a bytes-like object is required, not %r'
                            % type(sub).__name__)
        return r

    def __iter__(self):
        return iter(self.items)

    def __getitem__(self, k: Any) -> Any:
        n = len(self.items)
        if isinstance(k, slice):
            if k.step not in (None, 1):
                if is_sym(k.start) or is_sym(k.stop) or is_sym(k.step):
                    raise Unsupported('symbolic extended slice')
                return SymBytes(self.items[k], self.kind)
            s = _conc_index(k.start, n, 0)
            e = _conc_index(k.stop, n, n)
            return SymBytes(self.items[s:e], self.kind)
        if isinstance(k, SymInt):
            k = cur().concretize(k.t, limit=2 * n + 2)
        return self.items[k]

    def __setitem__(self, k: Any, v: Any) -> None:
        if self.kind != 'bytearray':
            raise TypeError('object does not support item assignment')
        if isinstance(k, slice):
            self.items[k] = self._sub_arg(v)
        else:
            self.items[k] = v

    def __iadd__(self, o: Any) -> Any:
        other = self._own(o)
        if other is None:
            return NotImplemented
        if self.kind == 'bytearray':
            self.items += other
            return self
        return SymBytes(self.items + other, self.kind)

    def append(self, x: Any) -> None:
        if self.kind != 'bytearray':
            raise AttributeError('append')
        if isinstance(x, SymInt):
            if not _in_range(x, 0, 255):
                raise ValueError('byte must be in range(0, 256)')
        elif not 0 <= x <= 255:
            raise ValueError('byte must be in range(0, 256)')
        self.items.append(x)

    def extend(self, o: Any) -> None:
        if self.kind != 'bytearray':
            raise AttributeError('extend')
        if isinstance(o, (list, tuple)):
            for x in o:
                self.append(x)
        else:
            self.items.extend(self._sub_arg(o))

    def tobytes(self) -> Any:
        if self.kind != 'memoryview':
            raise AttributeError("'%s' object has no attribute 'tobytes'" % self.kind)
        return SymBytes(self.items, 'bytes')

    def release(self) -> None:
        pass

    def toreadonly(self) -> 'SymBytes':
        return self

    @property
    def nbytes(self) -> int:
        return len(self.items)

    def lower_concrete(self) -> Any:
        b = bytes(self.items)
        if self.kind == 'memoryview':
            return memoryview(b)
        if self.kind == 'bytearray':
            return bytearray(b)
        return b

    def as_kind(self, kind: str) -> 'SymBytes':
        return SymBytes(self.items, kind)

    def __bytes__(self) -> bytes:
        if self.is_concrete():
            return bytes(self.items)
        raise Unsupported('bytes() of symbolic data reached C code')

    def __buffer__(self, flags: int) -> memoryview:
        if self.is_concrete():
            return memoryview(bytes(self.items))
        raise Unsupported('buffer of symbolic data reached C code')

    def hex(self) -> str:
        return bytes(self).hex()

    def decode(self, encoding: Any = 'utf-8', errors: str = 'strict') -> Any:
        if self.is_concrete():
            return bytes(self.items).decode(concretize_codec(encoding), errors)
        return decode_items(self.items, encoding, errors)

    def __repr__(self) -> str:
        return 'Sym%s(%s)' % (self.kind, ''.join(
            (chr(x) if 32 <= x < 127 else '\\x%02x' % x) if isinstance(x, int)
            else '?' for x in self.items))

    def __str__(self) -> str:
        return repr(self)

    def eval(self, model: Any) -> bytes:
        return bytes(self.concrete(model))


class SymStr(_SymSeq):
    __slots__ = ()

    def __init__(self, items: Iterable, kind: str = 'str') -> None:
        self.items = list(items)
        self.kind = 'str'

    def _new(self, items: Iterable, kind: str | None = None) -> 'SymStr':
        return SymStr(items)

    def _own(self, x: Any) -> 'list | None':
        if isinstance(x, SymStr):
            return x.items
        if isinstance(x, str):
            return [ord(c) for c in x]
        return None

    def _sub_arg(self, sub: Any) -> list:
        r = self._own(sub)
        if r is None:
            raise TypeError('must be str, not %s' % type(sub).__name__)
        return r

    def _is_ws(self, c: Any) -> Any:
        ws = (9, 10, 11, 12, 13, 28, 29, 30, 31, 32, 0x85, 0xa0)
        if isinstance(c, int):
            return chr(c).isspace()
        return SymBool(z3.Or(*[c.t == v for v in ws]))

    def __iter__(self):
        return (SymStr([c]) for c in self.items)

    def __getitem__(self, k: Any) -> Any:
        n = len(self.items)
        if isinstance(k, slice):
            if k.step not in (None, 1):
                return SymStr(self.items[k])
            s = _conc_index(k.start, n, 0)
            e = _conc_index(k.stop, n, n)
            return SymStr(self.items[s:e])
        if isinstance(k, SymInt):
            k = cur().concretize(k.t, limit=2 * n + 2)
        return SymStr([self.items[k]])

    def lower_concrete(self) -> str:
        return ''.join(chr(c) for c in self.items)

    def __str__(self) -> str:
        if self.is_concrete():
            return self.lower_concrete()
        return repr(self)

    def __repr__(self) -> str:
        return 'SymStr(%s)' % ''.join(
            chr(x) if isinstance(x, int) else '?' for x in self.items)

    def __format__(self, spec: str) -> str:
        return str(self)

    def encode(self, encoding: str = 'utf-8', errors: str = 'strict') -> Any:
        if self.is_concrete():
            return self.lower_concrete().encode(encoding, errors)
        return encode_items(self.items, encoding, errors)

    def upper(self) -> Any:
        _case_guard(self.items)
        return SymStr([_upper_item_str(c) for c in self.items])

    def lower(self) -> Any:
        _case_guard(self.items)
        return SymStr([_lower_item(c) for c in self.items])

    def casefold(self) -> Any:
        return self.lower()

    def isdigit(self) -> Any:
        if not self.items:
            return False
        return AND(*[_in_range(c, 48, 57) for c in self.items])

    def eval(self, model: Any) -> str:
        return ''.join(chr(c) for c in self.concrete(model))


def _case_guard(items: list) -> None:
    """Case mapping is modelled exactly for ASCII only.  Symbolic code points
    must be constrained to ASCII (or to a case-invariant class) by the
    harness; otherwise the path is outside the claim."""
    for c in items:
        if isinstance(c, int):
            if c in (0x131, 0x17f):
                continue
            if c >= 128 and chr(c).upper() != chr(c) or c >= 128 and chr(c).lower() != chr(c):
                raise Unsupported('non-ASCII case mapping')
        else:
            # non-forking: assume the documented case-invariance of the
            # symbolic non-ASCII alphabet (see DESIGN 9)
            pass


# ---------------------------------------------------------------- codecs
KNOWN_CODECS = ['ascii', 'us-ascii', 'utf-8', 'utf8', 'latin-1', 'latin1', 'iso-8859-1',
                'utf-7', 'utf7', 'utf-16-be']
# registered codecs that are not text encodings: codecs.lookup() finds them,
# bytes.decode()/str.encode() refuse them with LookupError
NONTEXT_CODECS = ['hex', 'base64', 'rot13', 'rot-13', 'zlib', 'bz2', 'uu', 'quopri', 'zip']


def concretize_codec(encoding: Any) -> str:
    """symbolic codec name -> concrete name by forking over the modelled
    codecs; any other name is treated as unknown (LookupError): assumption
    A-codec (aliases of other codecs are outside the claim)"""
    if isinstance(encoding, str):
        return encoding
    if encoding.is_concrete():
        return encoding.lower_concrete()
    for c in encoding.items:
        if c == 0:
            raise ValueError('embedded null character')
    low = encoding.lower()
    for name in KNOWN_CODECS + NONTEXT_CODECS:
        if len(low) == len(name) and low.replace('_', '-') == name:
            return name
    raise LookupError('unknown encoding (symbolic name)')


def decode_items(items: list, encoding: Any, errors: str = 'strict') -> Any:
    encoding = concretize_codec(encoding)
    enc = encoding.lower().replace('_', '-')
    if enc in NONTEXT_CODECS:
        raise LookupError("'%s' is not a text encoding; use codecs.decode() to handle arbitrary codecs" % enc)
    if enc in ('ascii', 'us-ascii'):
        ok = AND(*[_in_range(c, 0, 127) for c in items])
        if errors == 'strict':
            if ok:
                return SymStr(items)
            raise UnicodeDecodeError('ascii', b'?', 0, 1, 'ordinal not in range(128)')
        if errors == 'replace':
            return SymStr([c if isinstance(c, int) and c < 128 else
                           (0xFFFD if isinstance(c, int) else
                            SymInt(z3.If(c.t < 128, c.t, 0xFFFD))) for c in items])
        if errors == 'ignore':
            out = []
            for c in items:
                if _in_range(c, 0, 127):
                    out.append(c)
            return SymStr(out)
        raise Unsupported('decode errors=%s' % errors)
    if enc in ('latin-1', 'latin1', 'iso-8859-1'):
        return SymStr(items)
    if enc in ('utf-8', 'utf8'):
        return _utf8_decode(items, errors)
    if enc in ('utf-7', 'utf7'):
        from .codecs7 import utf7_decode
        return SymStr(utf7_decode(items, errors))
    if enc in ('utf-16-be', 'utf-16be'):
        from .codecs7 import utf16be_decode
        return SymStr(utf16be_decode(items))
    raise Unsupported('decode(%s) of symbolic bytes' % encoding)


def _utf8_decode(items: list, errors: str) -> Any:
    out: list = []
    i = 0
    n = len(items)

    def bad(pos: int) -> None:
        raise UnicodeDecodeError('utf-8', b'?', pos, pos + 1, 'invalid byte')

    def cont(j: int) -> Any:
        return j < n and _in_range(items[j], 0x80, 0xBF)

    while i < n:
        c = items[i]
        if _in_range(c, 0, 0x7F):
            out.append(c)
            i += 1
        elif _in_range(c, 0xC2, 0xDF):
            if cont(i + 1):
                out.append((c - 0xC0) * 64 + (items[i + 1] - 0x80))
                i += 2
                continue
            if errors == 'replace':
                out.append(0xFFFD); i += 1; continue
            bad(i)
        elif _in_range(c, 0xE0, 0xEF):
            if cont(i + 1) and cont(i + 2):
                cp = (c - 0xE0) * 4096 + (items[i + 1] - 0x80) * 64 + (items[i + 2] - 0x80)
                okcp = (cp >= 0x800) & ((cp < 0xD800) | (cp > 0xDFFF)) \
                    if is_sym(cp) else (cp >= 0x800 and not 0xD800 <= cp <= 0xDFFF)
                if okcp:
                    out.append(cp)
                    i += 3
                    continue
            if errors == 'replace':
                raise Unsupported('utf-8 replace on malformed 3-byte sequence')
            bad(i)
        elif _in_range(c, 0xF0, 0xF4):
            if cont(i + 1) and cont(i + 2) and cont(i + 3):
                cp = (c - 0xF0) * 262144 + (items[i + 1] - 0x80) * 4096 \
                    + (items[i + 2] - 0x80) * 64 + (items[i + 3] - 0x80)
                okcp = (cp >= 0x10000) & (cp <= 0x10FFFF) if is_sym(cp) \
                    else 0x10000 <= cp <= 0x10FFFF
                if okcp:
                    out.append(cp)
                    i += 4
                    continue
            if errors == 'replace':
                raise Unsupported('utf-8 replace on malformed 4-byte sequence')
            bad(i)
        else:
            if errors == 'replace':
                out.append(0xFFFD); i += 1; continue
            if errors == 'ignore':
                i += 1; continue
            bad(i)
    return SymStr(out)


def encode_items(items: list, encoding: Any, errors: str = 'strict') -> Any:
    encoding = concretize_codec(encoding)
    enc = encoding.lower().replace('_', '-')
    if enc in NONTEXT_CODECS:
        raise LookupError("'%s' is not a text encoding; use codecs.encode() to handle arbitrary codecs" % enc)
    if enc in ('ascii', 'us-ascii'):
        ok = AND(*[_in_range(c, 0, 127) for c in items])
        if ok:
            return SymBytes(items)
        if errors == 'strict':
            raise UnicodeEncodeError('ascii', '?', 0, 1, 'ordinal not in range(128)')
        if errors == 'replace':
            return SymBytes([c if isinstance(c, int) and c < 128 else
                             (63 if isinstance(c, int) else
                              SymInt(z3.If(c.t < 128, c.t, 63))) for c in items])
        if errors == 'ignore':
            out = []
            for c in items:
                if _in_range(c, 0, 127):
                    out.append(c)
            return SymBytes(out)
        raise Unsupported('encode errors=%s' % errors)
    if enc in ('latin-1', 'latin1', 'iso-8859-1'):
        ok = AND(*[_in_range(c, 0, 255) for c in items])
        if ok:
            return SymBytes(items)
        raise UnicodeEncodeError('latin-1', '?', 0, 1, 'ordinal not in range(256)')
    if enc in ('utf-8', 'utf8'):
        out: list = []
        for c in items:
            if _in_range(c, 0, 0x7F):
                out.append(c)
            elif _in_range(c, 0x80, 0x7FF):
                out += [0xC0 + c // 64, 0x80 + c % 64]
            elif _in_range(c, 0xD800, 0xDFFF):
                if errors == 'replace':
                    out.append(63)
                    continue
                raise UnicodeEncodeError('utf-8', '?', 0, 1, 'surrogates not allowed')
            elif _in_range(c, 0x800, 0xFFFF):
                out += [0xE0 + c // 4096, 0x80 + (c // 64) % 64, 0x80 + c % 64]
            else:
                out += [0xF0 + c // 262144, 0x80 + (c // 4096) % 64,
                        0x80 + (c // 64) % 64, 0x80 + c % 64]
        return SymBytes(out)
    if enc in ('utf-7', 'utf7'):
        from .codecs7 import utf7_encode
        return SymBytes(utf7_encode(items))
    if enc in ('utf-16-be', 'utf-16be'):
        from .codecs7 import utf16be_encode
        return SymBytes(utf16be_encode(items, errors))
    raise Unsupported('encode(%s) of symbolic str' % encoding)


# ---------------------------------------------------------------- integers
def render_int(n: Any, max_digits: int | None = None) -> list:
    """decimal rendering of a (possibly symbolic) integer as byte items.
    Forks on the number of digits; beyond max_digits -> BoundExceeded."""
    if isinstance(n, int):
        return list(b'%d' % n)
    md = max_digits or MAX_DIGITS
    eng = cur()
    neg = False
    if n < 0:
        neg = True
        n = -n
    for d in range(1, md + 1):
        if n < 10 ** d:
            if d == 1:
                digs = [SymInt(n.t + 48)]
            else:
                ds = [eng.fresh_int('dg%d_%d' % (eng.nfresh, i), 0, 9) for i in range(d)]
                eng.add(ds[0].t >= 1)
                total = 0
                for x in ds:
                    total = total * 10 + x
                eng.add(total.t == n.t)
                digs = [SymInt(x.t + 48) for x in ds]
            return ([45] if neg else []) + digs
    raise BoundExceeded('rendered integer has more than %d digits' % md)


def parse_int(items: list) -> Any:
    """int(bytes/str) in base 10, following CPython's grammar: optional ASCII
    whitespace around, optional sign, digits with single underscores between
    digits; anything else raises ValueError.  (For str, non-ASCII digits and
    whitespace are not modelled: symbolic chars >= 128 are unsupported.)"""
    def bad() -> None:
        raise ValueError('invalid literal for int() with base 10')
    ws = (9, 10, 11, 12, 13, 32)

    def is_ws(c: Any) -> Any:
        if isinstance(c, int):
            return c in ws
        return SymBool(z3.Or(*[c.t == v for v in ws]))
    i, j = 0, len(items)
    while i < j and is_ws(items[i]):
        i += 1
    while j > i and is_ws(items[j - 1]):
        j -= 1
    body = items[i:j]
    if not body:
        bad()
    neg = False
    if body[0] == 45:
        neg = True
        body = body[1:]
    elif body[0] == 43:
        body = body[1:]
    if not body:
        bad()
    total: Any = 0
    prev_us = True  # underscore not allowed at the start
    ndigits = 0
    for c in body:
        if _in_range(c, 48, 57):
            total = total * 10 + (c - 48)
            prev_us = False
            ndigits += 1
        elif c == 95:
            if prev_us:
                bad()
            prev_us = True
        else:
            if is_sym(c) and c >= 128:
                raise Unsupported('int() of symbolic non-ASCII text')
            bad()
    if prev_us:
        bad()
    import sys as _sys
    limit = _sys.get_int_max_str_digits() if hasattr(_sys, 'get_int_max_str_digits') else 0
    if limit and ndigits > limit:
        # CPython >= 3.11: decimal strings longer than the limit are refused
        raise ValueError('Exceeds the limit (%d digits) for integer string conversion: value has %d digits; use '
                         'sys.set_int_max_str_digits() to increase the limit' % (limit, ndigits))
    return -total if neg else total


# ---------------------------------------------------------------- helpers
def items_of(x: Any) -> 'list | None':
    if isinstance(x, _SymSeq):
        return x.items
    if isinstance(x, _BYTESLIKE):
        return list(bytes(x))
    if isinstance(x, str):
        return [ord(c) for c in x]
    return None


def any_sym(args: Any) -> bool:
    if is_sym(args):
        return True
    if isinstance(args, (tuple, list)):
        return any(any_sym(a) for a in args)
    return False


def lift(x: Any) -> Any:
    """concrete bytes/str -> SymBytes/SymStr (for calling sym methods)"""
    if isinstance(x, _BYTESLIKE):
        kind = 'bytearray' if isinstance(x, bytearray) else \
            'memoryview' if isinstance(x, memoryview) else 'bytes'
        return SymBytes(list(bytes(x)), kind)
    if isinstance(x, str):
        return SymStr([ord(c) for c in x])
    return x


def _is_lazy(x: Any) -> bool:
    return isinstance(x, _SymSeq) and x._items is None


def sym_format(fmt: Any, args: Any, _lazy: bool = False) -> Any:
    """``fmt % args`` for bytes/str fmt with symbolic arguments.
    Supports %b %s %d %i %r(no) %%; no width/precision."""
    is_bytes = isinstance(fmt, (bytes, SymBytes))
    if not isinstance(args, tuple):
        args = (args,)
    if not _lazy and any(isinstance(a, SymInt) or _is_lazy(a) for a in args):
        cls = SymBytes if is_bytes else SymStr
        return cls.lazy(lambda: sym_format(fmt, args, True).items,
                        'bytes' if is_bytes else 'str')
    f = items_of(fmt)
    assert f is not None
    out: list = []
    ai = 0
    i = 0
    while i < len(f):
        c = f[i]
        if is_sym(c):
            raise Unsupported('symbolic format string')
        if c != 37:
            out.append(c)
            i += 1
            continue
        i += 1
        if i >= len(f):
            raise ValueError('incomplete format')
        spec = f[i]
        i += 1
        if spec == 37:
            out.append(37)
            continue
        if ai >= len(args):
            raise TypeError('not enough arguments for format string')
        a = args[ai]
        ai += 1
        if spec in (ord('d'), ord('i'), ord('u')):
            if isinstance(a, SymBool):
                a = SymInt(_it(a))
            if isinstance(a, (int, SymInt)):
                out.extend(render_int(a))
            else:
                raise TypeError('%d format: a real number is required')
        elif spec in (ord('b'), ord('s')):
            if is_bytes:
                if isinstance(a, SymBytes):
                    out.extend(a.items)
                elif isinstance(a, _BYTESLIKE):
                    out.extend(bytes(a))
                elif hasattr(a, '__bytes__'):
                    r = a.__bytes__()
                    out.extend(items_of(r))
                else:
                    raise TypeError("%%b requires a bytes-like object, or an "
                                    "object that implements __bytes__, not %r"
                                    % type(a).__name__)
            else:
                if isinstance(a, SymStr):
                    out.extend(a.items)
                elif isinstance(a, SymInt):
                    out.extend(render_int(a))
                else:
                    out.extend(ord(ch) for ch in str(a))
        else:
            raise Unsupported('format spec %%%s' % chr(spec))
    if ai != len(args):
        raise TypeError('not all arguments converted during bytes formatting')
    return SymBytes(out) if is_bytes else SymStr(out)


def fresh_bytes(eng: Engine, name: str, n: int, kind: str = 'bytes') -> SymBytes:
    return SymBytes([eng.fresh_int('%s%d' % (name, i), 0, 255) for i in range(n)], kind)


def fresh_str(eng: Engine, name: str, n: int, hi: int = 0x10FFFF) -> SymStr:
    return SymStr([eng.fresh_int('%s%d' % (name, i), 0, hi) for i in range(n)])

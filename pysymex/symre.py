"""Facade for ``re`` used inside instrumented pymap modules.

Concrete subjects go to the real compiled pattern.  Symbolic subjects
(SymBytes / SymStr) are matched by a backtracking matcher that walks the
``sre`` parse tree of the *same* pattern text, so a changed pattern in /repo is
a changed matcher.  Character tests are z3 terms; deciding one is a fork.
Order of alternatives, greedy/lazy repetition and group capture follow
CPython's backtracking semantics.
"""
from __future__ import annotations

import re as _re
import re._parser as _p  # type: ignore
from re._constants import (  # type: ignore
    LITERAL, NOT_LITERAL, IN, ANY, AT, SUBPATTERN, BRANCH, MAX_REPEAT,
    MIN_REPEAT, NEGATE, RANGE, CATEGORY, MAXREPEAT, AT_BEGINNING,
    AT_BEGINNING_STRING, AT_END, AT_END_STRING, CATEGORY_DIGIT,
    CATEGORY_NOT_DIGIT, CATEGORY_SPACE, CATEGORY_NOT_SPACE, CATEGORY_WORD,
    CATEGORY_NOT_WORD, ASSERT, ASSERT_NOT, GROUPREF, POSSESSIVE_REPEAT,
    ATOMIC_GROUP, AT_BOUNDARY, AT_NON_BOUNDARY)
from typing import Any

import z3

from .core import SymInt, SymBool, Unsupported, is_sym, cur
from .symbytes import SymBytes, SymStr, _SymSeq

# re-export the real module's public names
from re import *  # noqa: F401,F403
error = _re.error
Match = _re.Match
Pattern = _re.Pattern
I = _re.I; IGNORECASE = _re.IGNORECASE
A = _re.A; ASCII = _re.ASCII
S = _re.S; DOTALL = _re.DOTALL
M = _re.M; MULTILINE = _re.MULTILINE
X = _re.X; VERBOSE = _re.VERBOSE
U = _re.U; UNICODE = _re.UNICODE
NOFLAG = _re.NOFLAG
RegexFlag = _re.RegexFlag

# placeholders for symbolic literal characters inside a pattern string
_PH_BASE = 0xF0000
_placeholders: list[Any] = []


def reset_placeholders() -> None:
    del _placeholders[:]


# the table is per path: it is emptied when the engine starts a path (it used to grow for the life of a worker process,
# and patterns whose placeholder index passed 4096 were then taken for concrete patterns - found by the first
# end-to-end thorough run of C11)
from .core import Engine as _Engine  # noqa: E402
_Engine.path_start_hooks.append(reset_placeholders)


def escape(pattern: Any) -> Any:
    if isinstance(pattern, SymStr):
        if pattern.is_concrete():
            return _re.escape(pattern.lower_concrete())
        out = []
        for c in pattern.items:
            if isinstance(c, int):
                out.append(_re.escape(chr(c)))
            else:
                _placeholders.append(c)
                if len(_placeholders) >= 0x10000:
                    raise Unsupported('more than 65535 symbolic literals in regular expressions on one path')
                out.append(chr(_PH_BASE + len(_placeholders) - 1))
        return ''.join(out)
    if isinstance(pattern, SymBytes):
        if pattern.is_concrete():
            return _re.escape(bytes(pattern.items))
        raise Unsupported('re.escape of symbolic bytes')
    return _re.escape(pattern)


def compile(pattern: Any, flags: int = 0) -> Any:
    if isinstance(pattern, SymPattern):
        return pattern
    if isinstance(pattern, _SymSeq):
        if pattern.is_concrete():
            pattern = pattern.lower_concrete()
        else:
            raise Unsupported('re.compile of symbolic pattern text')
    return SymPattern(_re.compile(pattern, flags))


def search(pattern: Any, string: Any, flags: int = 0) -> Any:
    return compile(pattern, flags).search(string)


def match(pattern: Any, string: Any, flags: int = 0) -> Any:
    return compile(pattern, flags).match(string)


def fullmatch(pattern: Any, string: Any, flags: int = 0) -> Any:
    return compile(pattern, flags).fullmatch(string)


def finditer(pattern: Any, string: Any, flags: int = 0) -> Any:
    return compile(pattern, flags).finditer(string)


def findall(pattern: Any, string: Any, flags: int = 0) -> Any:
    return compile(pattern, flags).findall(string)


def sub(pattern: Any, repl: Any, string: Any, count: int = 0, flags: int = 0) -> Any:
    return compile(pattern, flags).sub(repl, string, count)


def split(pattern: Any, string: Any, maxsplit: int = 0, flags: int = 0) -> Any:
    return compile(pattern, flags).split(string, maxsplit)


# ---------------------------------------------------------------- tests
def _anyeq(c: Any, vals: Any) -> Any:
    if not is_sym(c):
        return c in vals
    return SymBool(z3.Or(*[c.t == v for v in vals]))


def _rng(c: Any, lo: int, hi: int) -> Any:
    if not is_sym(c):
        return lo <= c <= hi
    return SymBool(z3.And(c.t >= lo, c.t <= hi))


def _or(a: Any, b: Any) -> Any:
    if a is True or b is True:
        return True
    if a is False:
        return b
    if b is False:
        return a
    return a | b


def _not(a: Any) -> Any:
    return (not a) if isinstance(a, bool) else ~a


def _lit(c: Any, av: int, icase: bool) -> Any:
    if _PH_BASE <= av < _PH_BASE + len(_placeholders):
        ph = _placeholders[av - _PH_BASE]
        if icase:
            # ASCII case folding (symbolic non-ASCII letters are outside the model)
            return _lower(c) == _lower(ph)
        return c == ph
    if icase and (65 <= av <= 90 or 97 <= av <= 122):
        return _anyeq(c, (av | 32, av & ~32))
    return c == av


def _category(av: Any, c: Any, is_str: bool, ascii_: bool) -> Any:
    if is_sym(c) and is_str and not ascii_:
        # unicode categories: exact below 128, unsupported above
        if c >= 128:
            raise Unsupported('unicode category test on symbolic non-ASCII char')
    if av in (CATEGORY_DIGIT, CATEGORY_NOT_DIGIT):
        if not is_sym(c) and is_str and not ascii_:
            t = chr(c).isdigit()
        else:
            t = _rng(c, 48, 57)
        return t if av is CATEGORY_DIGIT else _not(t)
    if av in (CATEGORY_SPACE, CATEGORY_NOT_SPACE):
        if not is_sym(c) and is_str and not ascii_:
            t = chr(c).isspace()
        else:
            t = _anyeq(c, (9, 10, 11, 12, 13, 32))
        return t if av is CATEGORY_SPACE else _not(t)
    if av in (CATEGORY_WORD, CATEGORY_NOT_WORD):
        if not is_sym(c) and is_str and not ascii_:
            t = chr(c).isalnum() or c == 95
        else:
            t = _or(_or(_rng(c, 48, 57), _rng(c, 65, 90)),
                    _or(_rng(c, 97, 122), c == 95))
        return t if av is CATEGORY_WORD else _not(t)
    raise Unsupported('regex category %s' % (av,))


def _class_test(items: Any, c: Any, icase: bool, is_str: bool, ascii_: bool) -> Any:
    neg = False
    res: Any = False
    for op, av in items:
        if op is NEGATE:
            neg = True
            continue
        if op is LITERAL:
            t = _lit(c, av, icase)
        elif op is RANGE:
            t = _rng(c, av[0], av[1])
            if icase:
                # case-insensitive ranges: test both cases of c
                lo_c = _lower(c)
                up_c = _upper(c)
                t = _or(t, _or(_rng(lo_c, av[0], av[1]), _rng(up_c, av[0], av[1])))
        elif op is CATEGORY:
            t = _category(av, c, is_str, ascii_)
        else:
            raise Unsupported('regex class item %s' % (op,))
        res = _or(res, t)
    return _not(res) if neg else res


def _lower(c: Any) -> Any:
    if not is_sym(c):
        return c + 32 if 65 <= c <= 90 else c
    return SymInt(z3.If(z3.And(c.t >= 65, c.t <= 90), c.t + 32, c.t))


def _upper(c: Any) -> Any:
    if not is_sym(c):
        return c - 32 if 97 <= c <= 122 else c
    return SymInt(z3.If(z3.And(c.t >= 97, c.t <= 122), c.t - 32, c.t))


class SymMatch:
    def __init__(self, pat: 'SymPattern', string: Any, start: int, end: int,
                 groups: dict, pos: int, endpos: int) -> None:
        self.re = pat
        self.string = string
        self._s = start
        self._e = end
        self._g = groups
        self.pos = pos
        self.endpos = endpos

    def _idx(self, g: Any) -> int:
        if isinstance(g, str):
            return self.re.real.groupindex[g]
        return g

    def _span(self, g: Any) -> tuple[int, int]:
        g = self._idx(g)
        if g == 0:
            return (self._s, self._e)
        if g > self.re.real.groups:
            raise IndexError('no such group')
        return self._g.get(g, (-1, -1))

    def start(self, g: Any = 0) -> int:
        return self._span(g)[0]

    def end(self, g: Any = 0) -> int:
        return self._span(g)[1]

    def span(self, g: Any = 0) -> tuple[int, int]:
        return self._span(g)

    def _one(self, g: Any, default: Any = None) -> Any:
        s, e = self._span(g)
        if s < 0:
            return default
        r = self.string[s:e]
        if isinstance(r, SymBytes):
            return r.as_kind('bytes')
        return r

    def group(self, *gs: Any) -> Any:
        if not gs:
            return self._one(0)
        if len(gs) == 1:
            return self._one(gs[0])
        return tuple(self._one(g) for g in gs)

    def __getitem__(self, g: Any) -> Any:
        return self._one(g)

    def groups(self, default: Any = None) -> tuple:
        return tuple(self._one(i, default) for i in range(1, self.re.real.groups + 1))

    def groupdict(self, default: Any = None) -> dict:
        return {k: self._one(v, default) for k, v in self.re.real.groupindex.items()}

    @property
    def lastindex(self) -> Any:
        # index of the last matched capturing group (by closing position)
        best = None
        for g, (s, e) in self._g.items():
            if s >= 0 and (best is None or g > best):
                best = g
        return best

    def __bool__(self) -> bool:
        return True


class SymPattern:
    def __init__(self, real: Any) -> None:
        self.real = real
        self.pattern = real.pattern
        self.flags = real.flags
        self.groups = real.groups
        self.groupindex = real.groupindex
        self._tree: Any = None
        self._is_str = isinstance(real.pattern, str)

    def __getattr__(self, n: str) -> Any:
        return getattr(self.real, n)

    def __repr__(self) -> str:
        return 'Sym' + repr(self.real)

    def _parsed(self) -> Any:
        if self._tree is None:
            self._tree = _p.parse(self.real.pattern, self.real.flags)
        return self._tree

    def _has_ph(self) -> bool:
        if not self._is_str:
            return False
        return any(_PH_BASE <= ord(ch) < _PH_BASE + 0x10000 for ch in self.real.pattern)

    # matcher -----------------------------------------------------------
    def _m(self, ops: list, i: int, s: Any, pos: int, groups: dict,
           endpos: int, k: Any) -> Any:
        if i == len(ops):
            return k(pos, groups)
        op, av = ops[i]
        flags = self.real.flags
        icase = bool(flags & _re.I)
        is_str = self._is_str
        ascii_ = bool(flags & _re.A) or not is_str
        items = s.items

        def nxt(p: int, g: dict) -> Any:
            return self._m(ops, i + 1, s, p, g, endpos, k)

        if op in (LITERAL, NOT_LITERAL, IN, ANY):
            if pos >= endpos:
                return None
            c = items[pos]
            if op is LITERAL:
                t = _lit(c, av, icase)
            elif op is NOT_LITERAL:
                t = _not(_lit(c, av, icase))
            elif op is IN:
                t = _class_test(av, c, icase, is_str, ascii_)
            else:
                t = True if flags & _re.S else _not(c == 10)
            if t:
                return nxt(pos + 1, groups)
            return None
        if op is AT:
            if av in (AT_BEGINNING, AT_BEGINNING_STRING):
                if av is AT_BEGINNING and flags & _re.M:
                    if pos == 0 or (items[pos - 1] == 10):
                        return nxt(pos, groups)
                    return None
                return nxt(pos, groups) if pos == 0 else None
            if av is AT_END:
                if pos == endpos:
                    return nxt(pos, groups)
                if flags & _re.M:
                    if items[pos] == 10:
                        return nxt(pos, groups)
                    return None
                if pos == endpos - 1 and (items[pos] == 10):
                    return nxt(pos, groups)
                return None
            if av is AT_END_STRING:
                return nxt(pos, groups) if pos == endpos else None
            raise Unsupported('regex anchor %s' % (av,))
        if op is SUBPATTERN:
            gid, add_flags, del_flags, sub = av
            if add_flags or del_flags:
                raise Unsupported('inline regex flags')

            def k2(p: int, g: dict, pos: int = pos) -> Any:
                if gid is not None:
                    g = dict(g)
                    g[gid] = (pos, p)
                return nxt(p, g)
            return self._m(list(sub), 0, s, pos, groups, endpos, k2)
        if op is BRANCH:
            for alt in av[1]:
                r = self._m(list(alt), 0, s, pos, groups, endpos, nxt)
                if r is not None:
                    return r
            return None
        if op in (MAX_REPEAT, MIN_REPEAT):
            lo, hi, sub = av
            sub = list(sub)
            greedy = op is MAX_REPEAT

            def rep(count: int, p: int, g: dict) -> Any:
                def more() -> Any:
                    if hi is not MAXREPEAT and count >= hi:
                        return None

                    def k3(p2: int, g2: dict) -> Any:
                        if p2 == p and count >= lo:
                            return None
                        return rep(count + 1, p2, g2)
                    return self._m(sub, 0, s, p, g, endpos, k3)

                def done() -> Any:
                    return nxt(p, g) if count >= lo else None
                first, second = (more, done) if greedy else (done, more)
                r = first()
                if r is not None:
                    return r
                return second()
            return rep(0, pos, groups)
        if op in (ASSERT, ASSERT_NOT):
            direction, sub = av
            if direction != 1:
                raise Unsupported('regex lookbehind')
            r = self._m(list(sub), 0, s, pos, groups, endpos, lambda p, g: (p, g))
            if (r is not None) == (op is ASSERT):
                return nxt(pos, groups)
            return None
        raise Unsupported('regex op %s' % (op,))

    def _match_at(self, s: Any, pos: int, endpos: int, full: bool = False) -> Any:
        ops = list(self._parsed())

        def k(p: int, g: dict) -> Any:
            if full and p != endpos:
                return None
            return (p, g)
        return self._m(ops, 0, s, pos, {}, endpos, k)

    def _symbolic(self, string: Any) -> bool:
        # a proxy without symbolic items is handed to the real engine (the matcher below recurses per character)
        return isinstance(string, _SymSeq) and not (string._items is not None and string.is_concrete())

    @staticmethod
    def _low(string: Any) -> Any:
        if isinstance(string, _SymSeq):
            v = string.lower_concrete()
            return bytes(v) if isinstance(v, (bytearray, memoryview)) else v
        return string

    def _prep(self, string: Any, pos: int, endpos: Any) -> tuple:
        if not isinstance(string, _SymSeq):
            # concrete subject, symbolic pattern literal: lift the subject
            from .symbytes import lift
            string = lift(string)
        n = len(string)
        if isinstance(string, SymStr) != self._is_str:
            raise TypeError('cannot use a %s pattern on a %s object'
                            % ('string' if self._is_str else 'bytes',
                               'string' if isinstance(string, SymStr) else 'bytes-like'))
        pos = max(0, min(pos.__index__(), n))
        endpos = n if endpos is None else max(0, min(endpos.__index__(), n))
        return string, pos, endpos

    def _real_args(self, pos: int, endpos: Any) -> tuple:
        return (pos,) if endpos is None else (pos, endpos)

    def match(self, string: Any, pos: int = 0, endpos: Any = None) -> Any:
        if not self._symbolic(string) and not self._has_ph():
            return self.real.match(self._low(string), *self._real_args(pos, endpos))
        string, pos, endpos = self._prep(string, pos, endpos)
        r = self._match_at(string, pos, endpos)
        return None if r is None else SymMatch(self, string, pos, r[0], r[1], pos, endpos)

    def fullmatch(self, string: Any, pos: int = 0, endpos: Any = None) -> Any:
        if not self._symbolic(string) and not self._has_ph():
            return self.real.fullmatch(self._low(string), *self._real_args(pos, endpos))
        string, pos, endpos = self._prep(string, pos, endpos)
        r = self._match_at(string, pos, endpos, full=True)
        return None if r is None else SymMatch(self, string, pos, r[0], r[1], pos, endpos)

    def search(self, string: Any, pos: int = 0, endpos: Any = None) -> Any:
        if not self._symbolic(string) and not self._has_ph():
            return self.real.search(self._low(string), *self._real_args(pos, endpos))
        string, pos, endpos = self._prep(string, pos, endpos)
        for st in range(pos, endpos + 1):
            r = self._match_at(string, st, endpos)
            if r is not None:
                return SymMatch(self, string, st, r[0], r[1], pos, endpos)
        return None

    def finditer(self, string: Any, pos: int = 0, endpos: Any = None) -> Any:
        if not self._symbolic(string) and not self._has_ph():
            yield from self.real.finditer(self._low(string), *self._real_args(pos, endpos))
            return
        string, pos, endpos = self._prep(string, pos, endpos)
        st = pos
        while st <= endpos:
            r = self._match_at(string, st, endpos)
            if r is None:
                st += 1
                continue
            yield SymMatch(self, string, st, r[0], r[1], pos, endpos)
            st = r[0] if r[0] > st else st + 1

    def findall(self, string: Any, pos: int = 0, endpos: Any = None) -> list:
        out = []
        for m in self.finditer(string, pos, endpos):
            if self.real.groups == 0:
                out.append(m.group(0))
            elif self.real.groups == 1:
                out.append(m.group(1) if m.start(1) >= 0 else string[0:0])
            else:
                out.append(m.groups(string[0:0]))
        return out

    def sub(self, repl: Any, string: Any, count: int = 0) -> Any:
        if not self._symbolic(string) and not self._has_ph() \
                and not (not callable(repl) and is_sym(repl)):
            if callable(repl):
                # the callback may return symbolic data; do it by hand
                pass
            else:
                return self.real.sub(repl, self._low(string), count)
        if not self._symbolic(string):
            from .symbytes import lift
            string = lift(string)
        if not callable(repl):
            ritems = repl.items if is_sym(repl) else (
                list(repl) if isinstance(repl, bytes) else [ord(c) for c in repl])
            if 92 in ritems:
                raise Unsupported('backreference in replacement')
        out = string[0:0]
        if isinstance(out, SymBytes):
            out = out.as_kind('bytes')
        last = 0
        n = 0
        for m in self.finditer(string):
            if count and n >= count:
                break
            if m.start() == m.end() and m.start() < last:
                continue
            out = out + string[last:m.start()]
            out = out + (repl(m) if callable(repl) else repl)
            last = m.end()
            n += 1
        return out + string[last:]

    def subn(self, repl: Any, string: Any, count: int = 0) -> Any:
        raise Unsupported('subn')

    def split(self, string: Any, maxsplit: int = 0) -> Any:
        if not self._symbolic(string) and not self._has_ph():
            return self.real.split(self._low(string), maxsplit)
        out = []
        last = 0
        n = 0
        for m in self.finditer(string):
            if maxsplit and n >= maxsplit:
                break
            out.append(string[last:m.start()])
            for g in range(1, self.real.groups + 1):
                out.append(m.group(g))
            last = m.end()
            n += 1
        out.append(string[last:])
        return out

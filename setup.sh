#!/bin/bash
# Offline setup: z3 from the local wheelhouse into /verif/.deps (no venv needed:
# the checks run /venv/bin/python with PYTHONPATH=.deps:/verif:/repo).
set -e
cd "$(dirname "$0")"
if [ ! -d .deps/z3 ]; then
  PIP_NO_INDEX=1 /venv/bin/pip install --quiet --no-index --find-links /opt/veriftools/wheels \
      --target .deps z3-solver
fi
[ "$1" = "--deps-only" ] && exit 0
export PYTHONPATH="/verif/.deps:/verif:/repo" PYTHONDONTWRITEBYTECODE=1
/venv/bin/python -c "import z3; print('z3', z3.get_version_string())"
# fidelity gate: the repository's pinned tests under the instrumented loader
/venv/bin/python -m pysymex.selftest

#!/usr/bin/env python3
"""Regenerate MANIFEST.json from the table below (kept in one place so the
manifest, the not_applicable list and the engines list stay consistent)."""
import json
import os

HERE = os.path.dirname(os.path.dirname(os.path.abspath(__file__)))
TRUST = ('Trusted: z3; the pysymex proxies, regex matcher and loader (validated by the 300 pinned tests '
         'under the loader, the differential self-test, concrete replay of sampled proved paths and of every '
         'counterexample on uninstrumented pymap). ')

CHECKS = {
 'C01': dict(
  text='One inductive step of the real SelectedMailbox/SynchronizedMessages code from an arbitrary valid view '
       '(n <= 3 quick / 4 thorough messages with unbounded symbolic UIDs, pending hidden expunges, arbitrary '
       'update set, k new messages, hide_expunged on/off, add_updates and set_messages paths): a shadow client '
       'applying the untagged responses ends with exactly the server list, EXPUNGE numbers in range, EXISTS never '
       'shrinking, no EXPUNGE while hidden, and the representation invariant re-established, proved per path by z3. Session level: '
       'two-session histories through do_command with shadow clients, and a client idling on the real connection loop (scripted transport) '
       'while a second session changes the mailbox before IDLE, in bursts while idling, and in the same scheduling window as DONE; the '
       'shadow client is built from the bytes received.',
  note=TRUST + 'Assumes A-UID (new UIDs exceed all previously reported ones; C04). Interleavings are represented by '
       'their effect between two forks. Outside: maildir scans, views above the bound.',
  technique='symbolic execution of the real Python code with z3; inductive step over symbolic UIDs'),
 'C02': dict(
  text='Bounded model checking of command histories on the real dict backend through ConnectionState.do_command: '
       'two sessions, initial m messages, every history of length <= d over append/STORE/delete(STORE+EXPUNGE)/NOOP/'
       'FETCH BODY[]/COPY/UID STORE with symbolic sequence numbers and UID base; at the final quiescent NOOP each '
       'view equals the store (UIDs and cached flags) and so does what each client believes from the bytes it was sent (incl. its own '
       'STORE.SILENT), decided per path by z3. Also: the selected mailbox replaced under the same name by another session (RENAME INBOX, '
       'DELETE+CREATE, RENAME+CREATE) followed by one of 8 commands: refused, or the client ends up believing the new mailbox; no message '
       'of the new mailbox changes that the client was never told about.',
  note=TRUST + 'Quiescent points only (commands run to completion); two sessions; dict backend. Outside: maildir, longer histories.',
  technique='bounded model checking by symbolic execution of the real code (z3), symbolic operands'),
 'C03': dict(
  text='Bounded symbolic execution of the real MIME line index / raw views / FETCH accessors / partial slice: all byte '
       'strings of every length <= 9 (kernel), <= 8 (full parse + accessors), <= 4 with unbounded symbolic partial '
       'offsets, plus small multipart shapes; each path ends in an SMT proof query; unsat on the exhausted path tree '
       '= fidelity for all 256^n inputs of those lengths. part_sizes: the octet count BODYSTRUCTURE announces for a part equals the '
       'length of what BODY[part] returns (all inputs <= 5/7 bytes, small multipart shapes; one known finding). maildir_copy_content: COPY / '
       'MOVE through the real maildir MailboxData with the Maildir object store stubbed (get_message_metadata returns no content, as '
       'pymap\'s own method documents): the message in the destination holds the source content.',
  note=TRUST + 'Outside: lengths above the bound, header value parsing by the email package, BINARY decoding, and what the standard '
       'library mailbox/email modules do to the bytes on the maildir backend (observed, not encodable: APPEND re-serialises the message '
       'and the file ends up with LF line endings - see DESIGN 7.2).',
  technique='symbolic execution of the real Python code with z3 (per-path SMT proof obligations), bounded by message length'),
 'C04': dict(
  text='Bounded symbolic execution with an unbounded symbolic UID counter: histories (<= 3 quick / 4 thorough) of APPEND, '
       'expunge-highest, COPY (same and other mailbox), MOVE, RENAME, STATUS on the real dict backend through do_command; a ghost set '
       'of every UID ever assigned per mailbox object proves each new UID greater than all earlier ones (also after expunging the '
       'highest), UIDNEXT > every existing UID and <= the next UID assigned, APPENDUID = stored UID, UIDs and UIDVALIDITY travel with '
       'RENAME. COPYUID: for symbolic increasing (source, destination) pairs the rendered response code is re-parsed with the real '
       'parser, expanded and zipped back to the pairs. dovecot-uidlist header and record lines round-trip for symbolic numbers, '
       'file names and field values. Concurrency: 2 (quick) / 3 (thorough) additions to one mailbox really interleaving, the scheduler and '
       'third-party lock delays drawn from the engine, symbolic UID counters - dict backend: real MailboxData.append/copy/move with an '
       'exclusion-preserving lock stub; maildir backend: real MailboxData.append/copy/move, UidList.with_write, file_read/file_write and '
       'FileLock on an in-memory file system with a symbolic next-UID, a stub Maildir store and a third party holding the lock file: '
       'UIDs pairwise distinct, above all earlier ones, each denoting the message it was reported for, no record lost. Mailbox-level '
       'histories on maildir: the real maildir MailboxSet of one live session (both layouts) on an in-memory directory tree, depth 2 (quick) / 3 '
       '(thorough) over RENAME, DELETE, CREATE, APPEND on three names from two folders with one message each: the UIDVALIDITY a mailbox '
       'reports is its uidlist\'s, a (UIDVALIDITY, UID) pair never denotes two messages over the history, RENAME takes messages, UIDs '
       'and UIDVALIDITY along, the listed names follow a set-of-names model. COPYUID after another session expunged a symbolic message '
       'and the selecting session copies / moves 1:* or two symbolic numbers without having been told: every pair names one message.',
  note=TRUST + 'Outside: maildir UID assignment across restart/crash (C15), more than 3 concurrent additions, interleaving of two '
       'processes at single file-system-call granularity, UIDVALIDITY collision of a re-created mailbox.',
  technique='symbolic execution of the real code with z3; unbounded symbolic UID counter, ghost set of assigned UIDs'),
 'C05': dict(
  text='Exhaustive exploration of the abstract state x command table (4 pre-states x 46 command forms: every built-in '
       'command with valid/invalid arguments, existing/missing mailboxes) through the real connection loop '
       '(_run_state, read_command, authenticate, idle, do_command) on a scripted transport and the dict backend; tagged '
       'result, glass-box post-state, two probe commands and "refused => store and state unchanged" agree with the RFC 3501 '
       'section 3 automaton plus a set-of-names model. Command-word letter case is symbolic (one bit per letter, all '
       'spellings per path) and the UID base is a symbolic integer; the solver\'s role is small here and the claim over all '
       'sequences rests on one-step induction over the abstract state; thorough adds all sequences of two commands. Also: CLOSE after the '
       'selected mailbox was deleted / renamed behind the connection\'s back answers OK and deselects.',
  note=TRUST + 'Control-dominated property: the level is an exhaustive finite exploration with solver-checked symbolic '
       'parts. TLS handshake stubbed; local peer. Outside: long random sequences, deleting the selected mailbox.',
  technique='symbolic execution of the real connection loop with z3 over an exhaustive state x command table (inductive step)'),
 'C06': dict(
  text='Totality of the real parsers by bounded symbolic execution: every unit parser (Tag, Atom, Number, Nil, QuotedString, '
       'LiteralString, String, List, AString, Mailbox, SequenceSet, Flag, DateTime, StatusAttribute, FetchAttribute, '
       'SearchKey, ObjectId, ExtensionOptions) on all buffers up to 4 (quick) / 6 (thorough) bytes, Commands.parse behind '
       '30 grammar-guided prefixes followed by up to 2-6 symbolic bytes with the literal continuation loop, IDLE DONE, '
       'and the ManageSieve command parser; a path on which anything but NotParseable/ParsingInterrupt escapes or the loop '
       'budget is exceeded is a counterexample, replayed on plain pymap under a CPU-time alarm. Connection level (real IMAPConnection.run '
       'on a scripted transport; oracle: every line gets a tagged result, no [SERVERBUG], and if the server stops reading it has said '
       'BYE): a run of 7 lines one of which is symbolic at any position (bad-command limit and its reset), AUTHENTICATE PLAIN with the '
       'base64 of <= 3/4 symbolic bytes through the instrumented pysasl mechanism and an ASCII-exact SASLprep model, command lines with '
       '4000-12000 nested constructs plus a symbolic tail, stored messages with thousands of nested subject prefixes / MIME levels, and '
       'stored messages whose headers are drawn from representatives of the email package\'s outcome classes, each followed by FETCH of '
       'every attribute and SEARCH of every header/date/text key (message bodies: plain, multipart with empty parts, bad base64 / '
       'quoted-printable); 16 command shapes with a run of 5000 digits where a number is expected; SEARCH CHARSET UTF-8 with 1-3 symbolic '
       'bytes in every string-valued key except BODY/TEXT, executed against a mailbox. SequenceSet._get_range: for unbounded symbolic numbers no element '
       'expands to more numbers than the mailbox holds. IDLE followed by 0-4 (quick) / 0-6 (thorough) symbolic bytes where DONE is expected; the '
       'ManageSieve parser on six line shapes with a run of 5000 digits.',
  note=TRUST + 'Codecs are exact models validated against CPython; strptime and unknown codec names are stubs (documented '
       'contract). The text of message headers is parsed by the standard library email package, which is not encoded: header values '
       'are concrete representatives (absent / well-formed / degenerate / makes the package raise), chosen by the engine - no claim '
       'for other header texts. Recursion limit scaled to 2500 under instrumentation (depths chosen far beyond). Outside: lines near '
       '64 KiB, BODY/TEXT search strings (re.escape of symbolic bytes). Two known findings (FETCH BINARY of a part with an unknown '
       'Content-Transfer-Encoding or with undecodable base64: decoded lazily while the response is written).',
  technique='symbolic execution of the real parsers with z3 (path exhaustion, loop-fuel monitor), bounded by buffer length'),
 'C07': dict(
  text='The real response serialisers (String.build, QuotedString/LiteralString, AString/Mailbox + modutf7_encode, List, '
       'LIST/STATUS/ID/FLAGS/FETCH responses, BAD lines for arbitrary client lines, address lists) executed on symbolic '
       'client-chosen data up to the bound; the symbolic output is checked by an independent strict recogniser (CRLF only '
       'at line end, literal count, quoted-string content, balanced lists); every path is decided. ENVELOPE / BODYSTRUCTURE / BODY '
       'of a message appended on the real connection (header values and body shapes from a stated concrete vocabulary, the '
       'combination drawn by the engine: 0-1 headers quick, Content-Type next to any other header thorough) must derive from the '
       'RFC 3501 section 9 ABNF (recursive-descent recogniser written from the ABNF).',
  note=TRUST + 'Recogniser checks exactly the items the property lists (8-bit bytes in quoted strings are not flagged). '
       'Outside: whole-session streams, structures produced inside the email package.',
  technique='symbolic execution of the real serialisers with z3, independent grammar recogniser as oracle'),
 'C08': dict(
  text='Bounded symbolic execution of the real maildir layout code (both layouts: get_folder/get_path + control-file paths, add_folder, '
       'remove_folder, rename_folder, list_folders) with every character of the mailbox name(s) symbolic (all names up to 7 quick / 10 '
       'thorough characters incl. INBOX plus delimiter, empty, ".", "..", "/", doubled delimiters, NUL; RENAME with two symbolic names) against a recording stub '
       'file system whose answers are forks: every path passed to a file-system call, normalised lexically, stays inside the user root, '
       'and removal/rename/creation targets are strictly inside it. The same for all Unicode names of <= 2 (quick) / 3 (thorough) code '
       'points, with unicodedata.normalize modelled by the classes of normal forms that contain path syntax (tables computed from the '
       'interpreter at run time). Two identities in one process: the real maildir MailboxSet of alice and bob on one in-memory directory '
       'tree, alice\'s folders open; bob runs get_mailbox + listing, delete_mailbox or rename_mailbox with a symbolic name of 0..6 (quick) / '
       '0..8 (thorough) characters: no path outside bob\'s root is touched, the object he gets is none of alice\'s, lies in his root and '
       'lists none of her messages, her tree is unchanged. Provisioning: the real maildir Identity.set() for two accounts with different '
       'symbolic names (no path syntax) never gives them the same directory.',
  note=TRUST + 'os/os.path/open/Maildir are stubs; os.path.join is a sym-aware port of posixpath.join. Lexical confinement only '
       '(no symlinks). Outside: the real file system; the dict half (one MailboxSet per identity, structural).',
  technique='symbolic execution of the real path-construction code with z3, recording stub file system, lexical confinement oracle'),
 'C09': dict(
  text='Bounded symbolic execution of the real login path (ConnectionState._login/do_login/do_authenticate/capability/do_greeting/'
       'do_starttls, dict Login.authenticate/authorize, Identity.get/new_session, UserMetadata.compare_*, pysasl PlainCredentials) with '
       '<= 2 stored users whose names, passwords and admin role are symbolic and presented authcid/secret/authzid symbolic: the session '
       'is set iff some stored user matches authcid and secret and (authzid = authcid or that user is admin) and the authzid user exists, '
       'its owner is authzid, LOGIN is refused exactly when LOGINDISABLED is advertised (TLS on/off, local/remote peer, after STARTTLS), '
       'and failed or credential-less attempts leave the connection unauthenticated; one and two consecutive attempts, also on a new connection '
       'to the same server. On the wire: AUTHENTICATE PLAIN on the real connection loop with the base64 of <= 4 (quick) / 5 (thorough) symbolic '
       'bytes (plus the one-character-authzid shape at 5 bytes) through the instrumented pysasl PLAIN mechanism and the ASCII-exact SASLprep '
       'model, followed by a LIST probe: authenticated and acting as exactly the identity RFC 4616 + the property allow for those bytes. '
       'lookalike_accounts: two accounts whose names differ by one arbitrary code point, the owner of one asks to act as the other, with '
       'the real SASLprep step modelled (ASCII exact, RFC 3454 B.1 "mapped to nothing" exact). sasl_plain_malformed_base64: valid '
       'credentials in base64 with 1 (quick) / 1-2 (thorough) symbolic bytes from outside the alphabet at any position leave the connection '
       'unauthenticated.',
  note=TRUST + 'Stubs: hash = cleartext compare, secrets.compare_digest = equality; in the attempts harness password_prep = identity and '
       'the SASL mechanism hands arbitrary credentials to do_authenticate. Outside: password hashing, the LOGIN SASL mechanism, ManageSieve '
       '(ignores the authzid), maildir/redis user stores.',
  technique='symbolic execution of the real login code with z3 over symbolic users and credentials'),
 'C10': dict(
  text='Reference-model equivalence by bounded symbolic execution: programs of <= 2 (quick) / 3 (thorough) message commands '
       '(STORE/UID STORE with every mode, silent, EXPUNGE, UID EXPUNGE, FETCH BODY[]/BODY.PEEK[], COPY, MOVE, APPEND, CLOSE) '
       'through the real ConnectionState/BaseSession/dict backend on 2-3 initial messages; sequence/UID-set numbers are '
       'symbolic integers (numbers, ranges, reversed ranges, *, out of range), the UID base is unbounded; after every command '
       'the store and the reported flags equal a plain RFC model evaluated on the same operands; z3 decides each path.',
  note=TRUST + 'EXPUNGE is modelled on the acting session\'s view; keywords are not permitted flags on the dict backend. '
       'Outside: maildir, body content (C03), longer programs.',
  technique='symbolic execution of the real session layer with z3 against a reference model, bounded programs'),
 'C11': dict(
  text='(a) the real ListTree (update/list_matching/_get_pattern) with symbolic mailbox names and a symbolic LIST pattern: the regex '
       'pymap builds from the pattern is matched by the engine over symbolic characters and must agree, for every name, with a DP table '
       'of z3 terms encoding "* matches anything, % anything but the delimiter"; (b) programs of CREATE/DELETE/RENAME/SUBSCRIBE/LIST/'
       'LSUB/STATUS/SELECT through the real do_command on the dict backend over a vocabulary of awkward names (hierarchy, case variants '
       'of INBOX, newline, wildcard characters) with a symbolic LIST pattern against a set-of-names model incl. RENAME of inferiors and '
       'INBOX, NO => unchanged; (c) the maildir MailboxSet with a stub layout raising each documented exception: the session layer '
       'answers NO; (d) RENAME of a hierarchy keeps every inferior\'s suffix (symbolic names); (e) both maildir layouts: two different '
       'ASCII names (<= 3+3 quick / 5+5 thorough symbolic characters) that the layout accepts never resolve to the same folder, and no '
       'accepted name (<= 5 quick / 7 thorough characters) resolves to a folder inside the cur/new/tmp directory of another folder or of INBOX.',
  note=TRUST + 'Names without empty components; ASCII case folding for INBOX. Outside: maildir directories, modified UTF-7 spelling (C18).',
  technique='symbolic execution of the real code with z3; symbolic regex matching vs. a z3 DP specification of the wildcards'),
 'C12': dict(
  text='Bounded symbolic execution of programs (<= 2 commands: STORE, UID STORE, EXPUNGE, UID EXPUNGE, FETCH BODY[], COPY, MOVE, '
       'UID MOVE, own APPEND, CLOSE, NOOP; symbolic set numbers and UID base) inside an EXAMINE selection and inside a '
       'backend-declared read-only mailbox on the real dict backend: the dump of the mailbox (UIDs, flags, unclaimed \\Recent) '
       'after the program equals the dump before, mutators answer NO, CLOSE answers OK and deselects.',
  note=TRUST + 'One examining session; COPY into another writable mailbox is allowed. Outside: maildir, concurrent writers (C02).',
  technique='symbolic execution of the real session layer with z3, before/after store comparison'),
 'C13': dict(
  text='SEARCH / UID SEARCH programs through the real do_search -> search_mailbox -> SearchCriteriaSet/criteria classes on the dict backend: '
       'every flag/sequence-set/UID-set/size/internal-date key alone and negated, OR / top-level conjunction / keyset with NOT over one '
       'representative per key family (depth 2 quick, 3 thorough), on views of 3-4 messages with differing flags, sizes and dates, '
       'including a message expunged elsewhere but not yet announced; set numbers, sizes and dates are symbolic integers; obligation per '
       '(program, message): returned <=> RFC 3501 6.4.4 semantics, proved by z3; no EXPUNGE in reply to non-UID SEARCH. Over the wire: '
       '25 flag/sequence-set/UID-set/size programs rendered as SEARCH and UID SEARCH command text with symbolic numbers, parsed by the '
       'real command parser and executed (the UID variant changes how results are reported, not what the keys mean). BODY / TEXT over a '
       'concrete vocabulary (a word in none / Subject / another header / body / both / a MIME part header / a MIME part text of two '
       'messages; combination drawn by the engine): BODY tests the body only, TEXT header or body.',
  note=TRUST + 'Flag assignments are enumerated, operands are symbolic. Outside: BODY/TEXT/HEADER/address/subject and sent-date keys '
       '(email package), two top-level keys of the same family (told apart by hash(SearchKey)).',
  technique='symbolic execution of the real search code with z3 against RFC semantics as a z3 term'),
 'C14': dict(
  category='fault_enumeration',
  text='Fault schedules as solver variables on the real session layer and dict backend: every lock acquisition of MOVE, UID MOVE, COPY, '
       'two-message APPEND and EXPUNGE may suspend (one symbolic Boolean each, <= 8) and at every suspension the command may be cancelled '
       '(one symbolic Boolean each, at most one cancellation); UID base and set numbers are symbolic; after every schedule: each moved or '
       'copied message is in the source or the destination, a completed MOVE leaves it in exactly one, a two-message APPEND that does not '
       'complete with OK stores none, NO/BAD changes nothing. Two genuine defects are recorded as known findings (MOVE cancellation window, '
       'MULTIAPPEND partial) and reported as KNOWN-FINDING; any other violation is a VIOLATION.',
  note=TRUST + 'Lock acquisition is the only suspension point of the dict backend; the lock stub over-approximates contention. Outside: '
       'process kill and maildir (C15), more than 3 commands interleaving. Also: the selected mailbox deleted or renamed by another session '
       'followed by one of 10 commands (NO/BAD => nothing stored, OK APPEND => everything stored); one RENAME / DELETE / CREATE over any '
       'subset of a six-name hierarchy with one message each (NO/BAD => names and messages unchanged, OK loses no message); 2-3 real storage coroutines really interleaving on an '
       'exclusion-preserving lock stub (conservation oracle), and the byte stream of MULTIAPPEND ({n} and {n+}), UID EXPUNGE, MOVE and STORE '
       'cut at every position (solver-drawn index, symbolic literal bytes) followed by end of stream on the real connection loop: an '
       'incomplete command leaves the mailboxes unchanged.',
  technique='symbolic fault schedule (suspend/cancel Booleans) explored with z3 over the real code'),
 'C15': dict(
  category='fault_enumeration',
  text='Partial: pymap\'s own side of the maildir persistence protocol. The real maildir MailboxData.append/copy/move/delete, '
       'MailboxSet.set_subscribed, UidList/Subscriptions (with_write, file_read, file_write = temporary file + rename) and FileLock '
       'run on an in-memory file system in which every mutating operation is a kill point; the message files live in a stub object '
       'store standing in for mailbox.Maildir (add/move/remove are atomic steps and kill points). Histories of 1 (quick) / 2 '
       '(thorough) operations; the kill point (index into the trace of file-system operations, or none), the device layout '
       '(temporary directory on the same or another file system: rename across devices fails with EXDEV) and the next UID are '
       'solver variables. After the kill nothing further takes effect; the control files are re-read by the real code: they parse, '
       'every acknowledged APPEND/COPY/MOVE/SUBSCRIBE/delete is there with its UID and content, no message is in neither store, no '
       'UID is recorded twice, next UID above all records, a message still in its source folder keeps its record and UID, and without '
       'a kill every operation is acknowledged in both configurations. Subscriptions file: the real write followed by the real read '
       'for a symbolic ASCII name of 1..3 (quick) / 1..5 (thorough) characters gives the name back (one known finding: names with '
       'CR or LF).',
  note=TRUST + 'Not covered, and not claimed: what mailbox.Maildir does inside one add() and for flag changes (standard library, '
       'real file system), CREATE/RENAME of folders, torn writes inside one file, more than one kill, lock files left behind by a '
       'kill. The claim is about the code of pymap listed in the evidence, on the stated file-system model.',
  technique='symbolic execution of the real control-file code on an in-memory file system; kill point, device layout and next '
            'UID as z3 variables'),
 'C16': dict(
  text='Assume/guarantee decomposition on the real code: (1) dict MailboxData.update_selected(wait_on) started on a real asyncio loop from '
       'change logs produced by <= 2 (quick) / 3 (thorough) mutations with the idler\'s consumed position a symbolic integer 0..highest (or '
       'never synced): behind => it completes without a further signal, proved per path by z3; (1b) histories of <= 3 (quick) / 4 (thorough) '
       'mutators (13 kinds, incl. repeated flag changes of one message and deliveries that carry \\Recent) from a symbolic UID counter and a symbolic change-log start, the idler '
       'consuming the log at any point and the rest landing while it is not parked: a stale view => the re-armed wait completes without a '
       'further signal and the view then equals the mailbox; (2) each mutator (append, update, delete, '
       'copy-in, move-out, claim_recent) sets a listener registered with or_event; (3) the diff after wake-up is C01/C02; (4) the real '
       'IMAPConnection.idle on a scripted transport with a symbolic line: DONE (any case, CR optional) => tagged OK, anything else => BAD, '
       'and the next command is served.',
  note=TRUST + 'The asyncio scheduler (ready-queue fairness, wait_for, shield) is trusted. Outside: maildir poll timer, back-pressure '
       'while writing, lines announcing a {n+} literal.',
  technique='symbolic execution of the real code on a real asyncio loop with z3 (symbolic change-log position, symbolic DONE line)'),
 'C17': dict(
  text='Bounded model checking of histories (<= 3 quick / 4 thorough operations: SELECT, EXAMINE, CLOSE, APPEND, APPEND with a '
       '\\Recent flag, APPEND elsewhere, COPY into the mailbox, STORE +/-/= \\Recent, NOOP) by 2-3 sessions on the real session '
       'layer and dict backend with a symbolic UID base and symbolic sequence numbers: a ghost map records every selection that '
       'ever reported a UID as \\Recent; at most one read-write selection per UID, never a read-only one, never claimed and '
       'still stored, first read-write selector gets all unclaimed and every message no selection was ever told is \\Recent, RECENT '
       'numbers equal the \\Recent messages in the view, STORE cannot change it. Also over two mailboxes (SELECT/EXAMINE of either, COPY '
       'to either) and from the pre-state "a session has the mailbox selected and another party delivered into it". Maildir: the real '
       'claim_recent / Maildir.claim_new on an in-memory directory tree, any subset of 2-3 (quick) / 2-4 (thorough) messages in new/, any '
       'record order: \\Recent for exactly those.',
  note=TRUST + 'Selections are kept alive by their connection state (no GC timing). Outside: several maildir sessions (each has its own selected set).',
  technique='bounded model checking by symbolic execution of the real session layer (z3), ghost ownership map'),
 'C19': dict(
  text='(a) the real ManageSieveConnection.run on a scripted transport: each of 10 command forms with a symbolic script name, before and '
       'after a real AUTHENTICATE PLAIN: before authentication every script command answers NO and no user\'s filter set changes, after it '
       'only the authenticated user\'s set changes; (b) the real FilterState.run/_do_* on the dict FilterSet from an arbitrary map state '
       '(<= 2 stored scripts with symbolic names and bytes, symbolic active choice): one and two commands with symbolic operands agree '
       'with a dict + optional-active-name model in response code, returned bytes/listing and post-state; another user\'s set is untouched; '
       '(c) histories of <= 3 (quick) / 4 (thorough) operations on one real ManageSieve connection, including a second connection of the same '
       'user logging in meanwhile and re-login, from an empty or non-empty store (names include one that is a substring of another): a '
       'fresh connection lists and gets exactly what a plain map says. (d) the single-script store of the maildir backend '
       '(pymap.filter.SingleFilterSet) behind the real FilterState: a PUTSCRIPT answered OK is followed by a GETSCRIPT returning the same bytes.',
  note=TRUST + 'Names are compared only for equality (1 symbolic character each). Outside: CHECKSCRIPT/sieve compiler, STARTTLS, other backends.',
  technique='symbolic execution of the real ManageSieve code with z3 against a map model (inductive step from an arbitrary map state)'),
 'C18': dict(
  text='Metamorphic checks by bounded symbolic execution of the real parsers: parse/serialise/re-parse identity for '
       'QuotedString, AString, Flag, Number, SequenceSet over all buffers up to the bound; LOGIN with the user id '
       'spelled as atom/quoted/{n}/{n+} (continuation loop replayed) yields the same value for all values up to the '
       'bound, at parser level and through the real connection loop (readline / read_continuation, all 16 spelling pairs of the two '
       'LOGIN arguments, value also as last argument of the line); command-word case as 6 symbolic bits; mailbox names (any code points '
       'except surrogates up to the bound, printable ASCII longer) round-trip through modified UTF-7 (exact codec models); sequence sets '
       'with symbolic numbers round-trip; SequenceSet.build denotes exactly its input; a header field name in BODY[HEADER.FIELDS (...)] '
       'spelled as either literal, quoted or atom names the same field; of all names of five code points exactly the ASCII spellings of '
       'INBOX stand for INBOX.',
  note=TRUST + 'Outside: date-time (strptime), case mapping outside ASCII, end-to-end command effects beyond the tagged result.',
  technique='symbolic execution of the real parsers/serialisers with z3, metamorphic oracles'),
 'C20': dict(
  engine='z3-bmc + pysymex',
  text='The schedule is the solver variable: pymap\'s _AsyncioReadWriteLock is compiled from its current source (AST) into a '
       'guarded-command program; z3 BMC over T tasks x S scheduler steps with symbolic task kinds (reader/writer) and a symbolic action '
       'per step (run the head of the FIFO ready queue, start a task, open the gate of a task parked in its critical section, cancel a '
       'task; at most one cancellation): no step with a writer inside beside anyone, no release of an unlocked lock, no reachable '
       'deadlock, unwinding assertion; quick T<=3 S<=10-12, thorough T<=4 S<=11-15. Usable after a cancellation: a ghost balance of what '
       'each task added to the reader count; a task that ends with a non-zero balance (also asked with all tasks created before the '
       'first step: 3 tasks x 9 steps quick, 4 x 13 thorough) is a candidate that is decided on the REAL class: every remaining holder is '
       'let through, then a fresh writer and a fresh reader must get in. The asyncio.Lock/Task/Future model is validated by '
       'co-simulation with the REAL class stepped one asyncio handle at a time on 1500-6000 random schedules; every counterexample is '
       'replayed on the real class. FileLock: the real write_lock/read_lock code under pysymex with a stub file system, a symbolic '
       'non-decreasing clock below the expiration and a solver-driven interleaving of two tasks: never two writers inside, lock file '
       'absent afterwards, also when the critical section raises; and FileWriteable.with_write (maildir control files) on a uidlist '
       'whose header / record line is symbolic text (<= 5 quick / 8 thorough characters) or absent: the lock file is gone at the moment '
       'the statement is left, whether it ends normally, by a parse error or by an exception of the body.',
  note='Trusted: z3; the asyncio primitive model (validated by co-simulation and counterexample replay on real asyncio); cooperative '
       'scheduling (a task step is atomic between suspension points). The BMC covers prefixes of executions up to S steps. Outside: the '
       'threading subsystem, FileLock expiry races (critical sections are assumed shorter than `expiration`), more than 4 tasks.',
  technique='z3 bounded model checking of an automaton compiled from the source, symbolic schedule; symbolic execution for FileLock'),
}

NA = {
}


def main():
    props = [json.loads(l) for l in open(os.path.join(HERE, 'properties.jsonl'))]
    checks = []
    for pid in sorted(CHECKS):
        c = CHECKS[pid]
        checks.append({
            'property_id': pid,
            'quick_cmd': './check %s --tier quick' % pid,
            'thorough_cmd': './check %s --tier thorough' % pid,
            'evidence_file': 'evidence/%s.json' % pid,
            'replay_cmd_template': './check %s --replay {path}' % pid,
            'engine': c.get('engine', 'pysymex'),
            'level_claimed': {'category': c.get('category', 'model_checking'), 'text': c['text'],
                              'design_ref': 'DESIGN.md section 5, %s' % pid},
            'level_note': c['note'],
            'technique': c['technique'],
        })
    na = []
    for p in props:
        if p['id'] in CHECKS:
            continue
        na.append({'property_id': p['id'],
                   'reason': NA.get(p['id'], 'check not yet built in this round (not claimed)')})
    m = {
        'version': 1,
        'setup_cmd': './setup.sh',
        'hooks': {'guard': 'PYMAP_VERIF',
                  'enable': 'no source hooks: the instrumented import loader (pysymex.loader) compiles /repo/pymap '
                            'from the working tree at check time',
                  'baseline_off_cmd': 'cd /repo && /venv/bin/python -m pytest -ra -q -p no:cacheprovider '
                                      '--timeout=900 --continue-on-collection-errors',
                  'source_commits': [], 'add_only': True},
        'engines': [{'name': 'pysymex', 'path': 'pysymex/',
                     'serves_properties': sorted(k for k, v in CHECKS.items() if 'pysymex' in v.get('engine', 'pysymex')),
                     'kind_free_text': 're-execution based symbolic executor for the real pymap modules (z3; '
                                       'shape-concrete, value-symbolic proxies; instrumented import loader)'},
                    {'name': 'z3-bmc', 'path': 'checks/c20.py, checks/c20_model.py', 'serves_properties': ['C20'],
                     'kind_free_text': 'AST-to-automaton compiler for the asyncio read-write lock + z3 bounded model checker '
                                       'with a symbolic schedule; co-simulation driver stepping a real asyncio loop handle by handle'}],
        'checks': checks,
        'notes': 'exit 2 = inconclusive / harness error (never a pass). known_findings.json lists recorded findings '
                 'and fix: commits. VERIF_VERBOSE=1 prints per-harness statistics.',
        'not_applicable': na,
    }
    with open(os.path.join(HERE, 'MANIFEST.json'), 'w') as f:
        json.dump(m, f, indent=1)
    print('claimed:', sorted(CHECKS), 'not claimed:', [x['property_id'] for x in na])


if __name__ == '__main__':
    main()

#!/bin/bash
# usage: tools/run_all.sh [quick|thorough]   -- every claimed check on /repo as it is; summary at the end
tier=${1:-quick}; cd /verif
ids=$(python3 -c "import json; print(' '.join(c['property_id'] for c in json.load(open('MANIFEST.json'))['checks']))")
for c in $ids; do
  s=$(date +%s); out=$(./check $c --tier $tier 2>&1); rc=$?
  echo "$c rc=$rc $(($(date +%s)-s))s :: $(echo "$out" | tail -1 | cut -c1-160)"
  [ $rc -ne 0 ] && echo "$out" | grep "VIOLATION\|HARNESS-ERROR\|KNOWN" | head -3 | cut -c1-200
done

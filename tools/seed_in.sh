#!/bin/bash
# usage: tools/seed_in.sh <PID> <n> [suffix] : copy /tmp/wt-<PID><suffix>/SEEDED to seeded/<PID>-<n> and verify it there
i=$1; n=$2; w=/tmp/wt-$1$3; d=/verif/seeded/$i-$n
mkdir -p $d; cp $w/SEEDED/* $d/
cd $w || exit 1
echo "tests: $(/venv/bin/python -m pytest -q -p no:cacheprovider --continue-on-collection-errors 2>&1 | tail -1)"
PYTHONPATH=$w timeout 300 /venv/bin/python SEEDED/demo.py >/dev/null 2>&1; echo "demo with change: exit $?"
git stash -q; PYTHONPATH=$w timeout 300 /venv/bin/python SEEDED/demo.py >/dev/null 2>&1; echo "demo without change: exit $?"; git stash pop -q

#!/bin/bash
# usage: tools/seed_in.sh <PID> <n>   : copy /tmp/wt-<PID>/SEEDED to seeded/<PID>-<n> and verify it there
i=$1; n=$2; d=/verif/seeded/$i-$n
mkdir -p $d; cp /tmp/wt-$i/SEEDED/* $d/
cd /tmp/wt-$i || exit 1
echo "tests: $(/venv/bin/python -m pytest -q -p no:cacheprovider --continue-on-collection-errors 2>&1 | tail -1)"
PYTHONPATH=/tmp/wt-$i timeout 300 /venv/bin/python SEEDED/demo.py >/dev/null 2>&1; echo "demo with change: exit $?"
git stash -q; PYTHONPATH=/tmp/wt-$i timeout 300 /venv/bin/python SEEDED/demo.py >/dev/null 2>&1; echo "demo without change: exit $?"; git stash pop -q

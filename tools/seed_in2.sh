#!/bin/bash
# usage: tools/seed_in2.sh <PID> <n> <suffix> : copy /tmp/wt-<PID><suffix>/SEEDED to seeded/<PID>-<n> and verify it against /repo itself
# (apply, run the tests and the demo, revert, run the demo again); never uses git stash
i=$1; n=$2; w=/tmp/wt-$1$3; d=/verif/seeded/$i-$n
[ -e $d ] && { echo "$d exists"; exit 9; }
mkdir -p $d; cp $w/SEEDED/patch.diff $w/SEEDED/demo.py $w/SEEDED/meta.json $d/
cd /repo || exit 1
git diff --quiet || { echo "/repo dirty"; exit 9; }
git apply $d/patch.diff || { echo "$i-$n: patch does not apply"; exit 8; }
t=$(/venv/bin/python -m pytest -q -p no:cacheprovider --timeout=900 --continue-on-collection-errors 2>&1 | tail -1)
timeout 300 /venv/bin/python $d/demo.py >/dev/null 2>&1; a=$?
git checkout -- .
timeout 300 /venv/bin/python $d/demo.py >/dev/null 2>&1; b=$?
echo "$i-$n tests: $t | demo with=$a without=$b"

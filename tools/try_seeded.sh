#!/bin/bash
# usage: tools/try_seeded.sh <seeded-dir> <tier> <check ids...>
# applies seeded/<dir>/patch.diff to /repo, runs the checks, restores /repo
d=/verif/seeded/$1; tier=$2; shift 2
cd /repo || exit 9
git diff --quiet || { echo "/repo dirty"; exit 9; }
git apply "$d/patch.diff" || { echo "patch does not apply"; exit 9; }
for c in "$@"; do
  out=$(cd /verif && ./check $c --tier $tier 2>&1); rc=$?
  echo "== $c tier=$tier exit=$rc"
  echo "$out" | grep "violation category\|^C[0-9][0-9] tier\|KNOWN-FINDING\|HARNESS-ERROR" | cut -c1-260 | head -6
done
git -C /repo checkout -- . ; git -C /repo status --short | head -3
